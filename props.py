"""Per-property configuration: which sidecar modules to load, extra (non-function) obligations,
what is assumed and what is not decided.  The functions verified for a property are the contracts
tagged with it (contract(q, prop=...))."""

COMMON_TRUSTED = [
    "CPython semantics as encoded in DESIGN.md section 2.3 (ints mathematical, floats as reals, left-to-right evaluation)",
    "no asynchronous exception between two bytecodes of pure code",
    "no monkey-patching; subclasses plugged in at extension points satisfy the base contract",
]

PROPS = {
    "C19": dict(
        contracts=["stdlib", "util_timeout", "util_retry", "connectionpool"],
        trusted_base=COMMON_TRUSTED + ["floats are mathematical reals (no NaN/inf/rounding)",
                                       "time.monotonic() is non-decreasing"],
        assumptions=["Timeout(total=<the 'unset' sentinel>) is outside the contract domain (total is None or a number)"],
        not_decided=["sites in connectionpool._make_request / connection.py that apply the computed values to the socket (next build step)"],
        level_text="Deductive proof, for all argument values (None, the unset sentinel, bools, ints, reals, strings, arbitrary objects) and all elapsed times, "
                   "that the real bodies of Timeout.__init__/_validate_timeout/from_float/clone/start_connect/get_connect_duration/connect_timeout/read_timeout "
                   "meet contracts taken from the property statement: exactly the valid values are accepted; connect timeout = min(connect,total); "
                   "read timeout = max(0, min(read, total - elapsed)), never negative, never above read or total; clone() is fresh and does not copy the clock.",
        level_note="Assumes: floats are mathematical reals; time.monotonic non-decreasing; objects other than numbers define no __float__/__lt__; "
                   "total is not the 'unset' sentinel. Trusted: the pyvc VC generator, z3/cvc5. Not yet covered: the call sites in connectionpool/connection that apply these values to sockets.",
    ),
}

PROPS["C04"] = dict(
    contracts=["stdlib", "util_retry"],
    trusted_base=COMMON_TRUSTED + ["backoff arithmetic over mathematical reals; 2**n as an uninterpreted positive function"],
    assumptions=["BaseHTTPResponse.get_redirect_location is a deterministic function of the response (assumed contract; verified separately under C05)",
                 "HTTPHeaderDict.get returns a str or the default (assumed contract)",
                 "time.sleep / time.time / email.utils date parsing: assumed contracts (contracts/stdlib.py)"],
    not_decided=["closed-loop attempt bound of HTTPConnectionPool.urlopen (recursion contract) - next build step"],
    level_text="Deductive proof over the real bodies of Retry.__init__/new/increment/is_exhausted/is_retry/from_int/_is_*_error/_is_method_retryable/"
               "get_backoff_time/_sleep_backoff/sleep_for_retry/get_retry_after/parse_retry_after/sleep and util.reraise: increment never mutates the "
               "caller's Retry (frame), decrements total and exactly the classified category, re-raises the same error object when retries/category is "
               "False or a read error hits a non-idempotent method, raises MaxRetryError(reason = last cause) exactly when a counter goes negative; "
               "is_exhausted <=> some counter < 0; every back-off sleep lies in (0, max(0, backoff_max)].",
    level_note="Assumed contracts: stdlib time/email/re, HTTPHeaderDict.get, get_redirect_location determinism. Floats as reals. "
               "Known finding D7 (Retry-After honoured for statuses outside 413/429/503) is reported as KNOWN-FINDING. "
               "The urlopen recursion (attempts on the wire <= 1 + budgets) is not yet under contract.",
)

PROPS["C18"] = dict(
    contracts=["poolmanager_key", "poolmanager_merge"],
    extra=["extra.c18_keywords.check"],
    trusted_base=COMMON_TRUSTED + ["frozenset(m.items()) / tuple(x) are functions of content (uninterpreted symbols)"],
    assumptions=["equality/hash of opaque key values (ssl_context, Timeout, Retry, Url) is identity or their own __eq__",
                 "the pool class looked up in pool_classes_by_scheme is an opaque constructor (fresh result, may raise any Exception)"],
    not_decided=["connection_from_host/connection_from_context/connection_from_pool_key are not yet under contract (the cache lookup itself is C17)"],
    level_text="Deductive proof that the real _default_key_normalizer maps a request context to a PoolKey field by field (each key field a function of its own keyword only: "
               "identity, or lower() for scheme/host, frozenset(items) for header dicts, tuple for socket_options, 16384 for a missing blocksize) - which is key injectivity up to exactly "
               "those normalisations - and rejects a keyword outside the key with TypeError; that _merge_pool_kwargs returns a fresh dict and leaves the manager's defaults untouched "
               "(frame obligation), with override semantics proved for a generic other key; that _new_pool hands the pool constructor exactly the keyed context (minus scheme/host/port, "
               "minus SSL keywords only for http); plus a finite-set obligation recomputed from the running signatures: every keyword accepted by the pool and connection constructors "
               "is a PoolKey field or supplied by the pool from keyed attributes.",
    level_note="The keyword universe is the one read from the running code (PoolKey._fields, constructor signatures) on every run; variants cover all-keywords-present, minimal and unknown-keyword contexts. "
               "Opaque values compare by identity/their own __eq__ (assumed).",
    technique="contract-based deductive verification (VCs from the real ASTs, z3) + finite-set obligation over signatures read from the running interpreter",
)

NOT_APPLICABLE_REASON = {}

PROPS["C14"] = dict(
    contracts=["util_url"],
    bounded=["c14"],
    level="other",
    trusted_base=COMMON_TRUSTED + ["regex capture groups over-approximated: a group is None (if optional) or a substring of the subject matching its own sub-pattern"],
    assumptions=["reference RFC 3986 reading used by the bounded contract: authority ends at the first / ? # or backslash, host follows the last '@', port follows the last ':' outside brackets",
                 "_normalize_host: assumed contract (returns str/None, raises only LocationParseError/ValueError); its behaviour is exercised by the bounded contract"],
    not_decided=["agreement with RFC 3986 / canonical form / idempotence beyond the stated bound (regex capture-group priority semantics are outside the VC generator's reach)"],
    explanation="Two parts. (1) PROVED for all strings by VC generation over the real parse_url/_encode_target bodies: totality (only LocationParseError escapes: every "
                "failure mode of every operation in the body is either caught by the except clause or impossible), result is a Url, port None or within 0..65535, scheme lower-cased. "
                "(2) BOUNDED (never counted as proved): the full contract of the statement (normal form, RFC 3986 character sets, upper-case escapes, no double encoding, dot-segments removed, "
                "idempotence, host/port/userinfo agreement with an independent RFC 3986 reading, linear running time) evaluated on the real parse_url exhaustively for every string up to "
                "length 5 (quick) / 6 (thorough) over a 16-symbol delimiter-heavy alphabet after 3 prefixes, on pairwise-complete + random hostile component products, and on 1e5-character repetitions.",
    level_text="Partial proof + bounded stand-in: totality, port range and scheme case are discharged deductively for all inputs; canonical-form, idempotence and RFC-agreement clauses are checked "
               "exhaustively on all short strings over a hostile alphabet (3.3e6 quick / 5e7 thorough inputs) - complete within that bound, not a proof.",
    level_note="Bounded part is labelled bounded in the evidence and never counted among discharged obligations. Known finding D11 (empty host not idempotent) is reported as KNOWN-FINDING. "
               "Running-time clause: only a coarse super-linearity check at 1e5 characters.",
    technique="contract-based deductive verification (VCs from the real ASTs, z3) for totality/port/scheme + exhaustive bounded contract check of the real parse_url (stand-in for regex-capture semantics)",
)

PROPS["C04"]["contracts"] = ["stdlib", "util_timeout", "util_retry", "util_url", "connectionpool"]

PROPS["C01"] = dict(
    contracts=["stdlib", "util_timeout", "util_retry", "util_url", "connectionpool", "pool_queue"],
    trusted_base=COMMON_TRUSTED + ["sequential semantics (no other thread closes the pool between checkout and return; concurrency is C02)"],
    assumptions=["connection boundary (HTTPConnection.request/getresponse/close, _validate_conn, _prepare_proxy): assumed contracts - may raise any exception of the shapes listed in specs/retry.py:boundary_exception",
                 "urlopen uses _get_conn/_put_conn at their lease-accounting contracts; the real bodies of both are verified against those contracts (contracts/pool_queue.py, with self.pool volatile) - the queue itself (queue.LifoQueue get/put) and BaseHTTPResponse.drain_conn stay assumed"],
    not_decided=["asynchronous exceptions between two bytecodes of pure code", "the multiset view of the queue ('holds no connection twice') is not a discharged invariant: it follows from the assumed queue contract plus put-only-what-was-checked-out",
                 "the response side is covered by HTTPResponse.release_conn's contract (C02/C03 lists), not by an invariant over all response methods"],
    level_text="Deductive proof over the real body of HTTPConnectionPool.urlopen (every path: all exception classes of the running interpreter's hierarchy at every callee, "
               "retry/redirect/status recursion at the function's own contract): on every exceptional exit no lease taken by the call is outstanding, on normal exit the only outstanding lease is "
               "the one held by the returned response, a slot is only put back by the call that took it, and no raw OSError/ssl/http.client exception escapes (all are translated to urllib3 exceptions).",
    level_note="Known finding D14 (exception before checkout puts back a None never taken) is reported as KNOWN-FINDING and proved absent outside its recorded region. "
               "Assumed: the connection-boundary contracts and the queue's own get/put contract; _get_conn/_put_conn bodies are proved against the lease contracts urlopen relies on.",
)

PROPS["C08"] = dict(
    contracts=["ssl_match_hostname"],
    bounded=["c08"],
    level="other",
    trusted_base=COMMON_TRUSTED + ["ipaddress.ip_address / hashlib / hmac.compare_digest / binascii.unhexlify: their documented meaning"],
    assumptions=["_dnsname_match and _ipaddress_match are used by match_hostname at abstract contracts (uninterpreted predicates dns_ok / ip_ok); their concrete behaviour is covered only by the bounded contract",
                 "three-valued RFC 6125 reference used by the bounded contract: exact case-insensitive match and whole-label left-most wildcard over one non-empty label MUST be accepted; wildcard outside the left-most label, >1 wildcard, spanning dots/empty label, partial wildcard inside or against an xn-- label MUST be rejected; other partial wildcards MAY go either way; host names containing '*' are not reference identities (either)"],
    not_decided=["a SAN list longer than 3 entries (the deductive part unrolls the SAN loop for lengths 0..3, as the property's quantifier does); _dnsname_match beyond 3x4 labels"],
    explanation="Two parts. (1) PROVED (VCs over the real match_hostname body, SAN lists of 0..3 entries with fully symbolic keys/values, with and without a subject): it returns normally exactly when some "
                "entry is permitted to match - a DNS entry only for a non-IP host, an IP entry only for an IP host (zone cut), commonName only when enabled, the host is not an IP and no DNS/IP SAN exists - "
                "and otherwise raises CertificateError (or ValueError for a malformed IP SAN); nothing else escapes. (2) BOUNDED: the regex-building _dnsname_match against a three-valued RFC 6125 reference for all "
                "SAN x host names over an 11-label alphabet (2.1e6 pairs quick, 2.4e7 thorough); match_hostname end to end for all SAN lists of <=2/3 entries from an 18-entry pool x 14 hosts x CN on/off; "
                "assert_fingerprint for pins derived from the true digests by case change, colon insertion, nibble flips, truncation, extension.",
    level_text="Partial proof + bounded stand-in: the dispatch logic of match_hostname (which entry kinds may match which host kinds, commonName fallback, exception surface) is discharged deductively for SAN lists of 0..3 "
               "symbolic entries; the run-time-built wildcard regex and the fingerprint comparison are checked exhaustively within stated bounds (complete within the bound, not a proof).",
    level_note="Bounded parts are labelled bounded and never counted among discharged obligations. Observation (not a finding): a DNS SAN with more than one wildcard rejects the whole certificate even if a later entry matches exactly.",
    technique="contract-based deductive verification (VCs from the real AST, z3) for match_hostname's dispatch + exhaustive bounded contract checks of _dnsname_match / match_hostname / assert_fingerprint",
)

PROPS["C10"] = dict(
    contracts=["http2", "stdlib", "util_request", "connection_request"], bounded=["c10", "c11"], level="other", trusted_base=COMMON_TRUSTED,
    assumptions=["http.client validates the request target (no CTL/SP) and header names/values (no CR/LF except the obs-fold forms) and buffers the head until endheaders (assumed; exercised by the bounded wire check)",
                 "a strict independent request parser defines 'exactly one request'; obs-fold continuation lines and a bare CR before SP/HT inside a value are tolerated (they add no header line)"],
    not_decided=["what http.client writes for a buffered request line / header line (CR/LF validation of target, names and values) is the assumed boundary; only the bounded wire check looks at the bytes",
                 "at connection level the caller passes the request target itself: fragment dropping / percent-encoding are checked at pool and manager level"],
    explanation="Three parts. (1) PROVED (regex language obligations over the patterns read from the running module): HTTP/2 _is_legal_header_name accepts exactly the lower-case token language (fixed defect D4: a trailing newline was accepted) "
                "and _is_illegal_header_value rejects exactly values with NUL/CR/LF anywhere or leading/trailing SP/HT. (1b) PROVED over the real HTTPConnection.putrequest / putheader / request with http.client as the assumed boundary (ghost wire events): "
                "only RFC 7230 token methods reach http.client and a non-token method raises ValueError before anything is buffered; SKIP_HEADER suppresses a line only for the three automatic headers and raises ValueError for any other; "
                "request() passes skip_host / skip_accept_encoding exactly when the caller's mapping has a host / accept-encoding key in any letter case, and adds the automatic User-Agent line exactly when the caller has none. (2) BOUNDED: what reaches sendall() on an in-memory socket, parsed by a strict independent parser, for methods / URLs / "
                "header names / values built from 17 hostile fragments and all their pairs through three entry points; the automatic Host / Accept-Encoding / User-Agent lines for every supply/suppress combination; the percent-encoder for every "
                "single character and fragment pair.",
    level_text="Partial proof (HTTP/2 header validity as regular-language obligations; method validation and automatic-header decisions of the real HTTPConnection code against ghost wire events) + bounded wire-level contract check through the real request path (complete for the stated fragment alphabet; not a proof).",
    level_note="Fixed: D4. Bounded part labelled bounded.",
    technique="contract-based deductive verification (regex language inclusion; pre/postconditions with ghost wire events on HTTPConnection.putrequest/putheader/request, z3) + bounded strict parse of the emitted bytes on an in-memory socket",
)

_POOLS = ["stdlib", "util_timeout", "util_retry", "util_url", "connectionpool", "poolmanager_urlopen"]
_BOUNDARY = ["connection boundary (HTTPConnection.request/getresponse/close, _validate_conn, _prepare_proxy): assumed contracts",
             "HTTPConnectionPool.is_same_host, PoolManager.connection_from_host, urllib.parse.urljoin, HTTPHeaderDict(...)/copy/_prepare_for_method_change, BaseHTTPResponse.get_redirect_location/drain_conn: assumed contracts (uninterpreted where content matters)",
             "mappings (dict / HTTPHeaderDict) abstracted to membership/value arrays; the strip loop's effect on the copy is havocked (its content is checked by the bounded contract)"]

PROPS["C05"] = dict(
    contracts=_POOLS, bounded=["c05"], trusted_base=COMMON_TRUSTED, assumptions=_BOUNDARY,
    not_decided=["the closed-loop hop count is carried by the induction step (each hop passes on the policy returned by Retry.increment, whose contract decrements redirect/total and raises MaxRetryError below zero); the summed bound is not restated as one formula"],
    level_text="Deductive proof over the real PoolManager.urlopen (two keyword variants), HTTPConnectionPool.urlopen (recursion sites) and Retry.from_int/__init__/increment: a cross-host hop happens only when redirect was requested, "
               "with the policy object freshly returned by Retry.increment (budget decremented, MaxRetryError when exhausted -> response returned iff raise_on_redirect is False), the effective policy is the request's or else the pool's default "
               "(fixed defect D1), the pool itself is always called with redirect=False/assert_same_host=False, 303 turns into a body-less GET while 301/302/307/308 keep method and body, the hop target is urljoin(current, Location), "
               "and every recursion of the pool-level urlopen carries redirect/timeout/release/... unchanged. Plus a bounded end-to-end contract over scripted redirect chains.",
    level_note="Assumed: connection boundary, urljoin, HTTPHeaderDict operations (C16). The bounded part (scripted chains through the real PoolManager with an in-memory ConnectionCls) is labelled bounded.",
)
PROPS["C06"] = dict(
    contracts=_POOLS, bounded=["c06"], trusted_base=COMMON_TRUSTED, assumptions=_BOUNDARY,
    not_decided=["that the strip loop removes every spelling of a listed name from the copy is decided by the bounded contract only (the loop over an opaque mapping is havocked in the proof)"],
    level_text="Deductive proof over the real PoolManager.urlopen and Retry: the origin comparison is made against the absolute redirect target (urljoin result), stripping is done on a fresh copy (the caller's mapping is in no "
               "modifies-frame: frame obligation), the set of names to strip is the effective policy's and is carried unchanged (as the lower-cased image) through every Retry.increment, and the stripped mapping is what the next hop gets. "
               "Bounded: the strip loop itself for all spellings/containers through the real code.",
    level_note="Known finding D15 (forwarding proxy: redirect to the proxy's own host:port keeps credentials) is reported by the bounded contract as KNOWN-FINDING. Fixed: D16.",
)

_RESP_ASSUME = ["http.client.HTTPResponse.read/read1/_safe_read/close/isclosed, BufferedReader.readline: assumed contracts (exactly-n-bytes-or-IncompleteRead etc.)",
                "zlib / zstandard decoders: not under contract (their use is covered by the bounded contract only)"]
PROPS["C12"] = dict(
    contracts=["connectionpool", "response"], bounded=["c12"], level="other", trusted_base=COMMON_TRUSTED, assumptions=_RESP_ASSUME,
    not_decided=["the representation invariant of HTTPResponse across arbitrary call histories (decoded buffer + decoder state) is not proved by induction; call sequences are covered up to length 2 (+ final read) by the bounded contract",
                 "BytesQueueBuffer.get/get_all loop invariants (deque + BytesIO) are not yet under the VC generator; covered by the bounded contract through every read path"],
    explanation="Two parts. (1) PROVED: the chunk arithmetic of _handle_chunk (returned length = min(amt, chunk_left), remainder kept / CRLF consumed exactly when the chunk is finished, bytes consumed from the wire accounted in a ghost counter), "
                "_update_chunk_length (a chunk length is known on every normal return; InvalidChunkLength / ProtocolError otherwise) and _raw_read's bookkeeping. (2) BOUNDED: every framing x coding x short call sequence through the real "
                "pool/http.client/HTTPResponse on an in-memory network: the concatenation of the pieces equals the payload, read(n) <= n, nothing after the end, no empty stream piece.",
    level_text="Partial proof + bounded stand-in: chunk/length arithmetic discharged deductively; the equivalence of all read APIs is checked on 1.2e4 (quick) framing x coding x call-sequence cases through the real code (complete for sequences <= 2 on the small payloads; not a proof).",
    level_note="Known finding D13 (mixing http.client's and urllib3's chunk parsers) is reported as KNOWN-FINDING. Fixed: D2, D3. Bounded part labelled bounded.",
    technique="contract-based deductive verification (VCs from the real AST, z3) for chunk arithmetic + bounded contract check of the read APIs on an in-memory network",
)
PROPS["C13"] = dict(
    contracts=["connectionpool", "response"], bounded=["c13"], level="other", trusted_base=COMMON_TRUSTED, assumptions=_RESP_ASSUME,
    not_decided=["decoder-level corruption detection is zlib's/zstd's; only the wrapping (DecodeError) and flushing are urllib3's"],
    explanation="Two parts. (1) PROVED over the real _raw_read with _error_catcher executed inline (the generator's yield runs the with-body): when the stream ends while Content-Length bytes are still owed it never returns normally - for read(n) and (fixed defect D17) read1; "
                "no raw OSError/ssl/http.client exception escapes (each is translated); on every unclean exit the connection and the original response are closed before the lease is released; _update_chunk_length raises InvalidChunkLength / ProtocolError "
                "for a non-hex / empty size line; _handle_chunk's byte accounting. (2) BOUNDED: every truncation point x 8 read patterns (+ second request must use a new socket), single-byte corruptions of compressed streams, malformed chunk-size lines.",
    level_text="Partial proof + bounded stand-in: the error exits of the body readers are discharged deductively (all exception classes of the running hierarchy at the file-object boundary); truncation/corruption sweeps are exhaustive within the stated bounds.",
    level_note="Known findings D18 (lenient chunk-size lines) and D19 (incomplete zstd frame streamed) are reported as KNOWN-FINDING. Fixed: D17.",
    technique="contract-based deductive verification (VCs from the real AST incl. the inlined context manager, z3) + bounded truncation/corruption sweeps on an in-memory network",
)

PROPS["C17"] = dict(
    contracts=["stdlib", "collections_ruc"], extra=["extra.c17_locks.check"], bounded=["c17"], level="other", trusted_base=COMMON_TRUSTED,
    assumptions=["OrderedDict = the engine's dict abstraction (membership / value / size) plus the most recently inserted key; popitem(last=False) returns some present key that is not the most recently inserted one when there are >= 2 entries",
                 "the dispose callback is used at an assumed contract (counted, may raise anything, does not touch the container)", "RLock: mutual exclusion assumed (sequential semantics inside a critical section)"],
    not_decided=["WHICH entry is evicted ('least recently used') beyond 'not the one just inserted' is decided by the bounded reference-LRU check only (full insertion order is not in the dict model)",
                                 "sockets of an evicted pool are closed 'once nothing uses it any more' (weakref finalizer / GC): not decided",
                                 "sockets of an evicted pool are closed 'once nothing uses it any more' (weakref finalizer / GC): not decided",
                                 "in-flight responses of an evicted pool finish: follows from PoolManager never closing pools (no dispose callback); GC clause not decided"],
    explanation="Three parts. (0) PROVED over the real RecentlyUsedContainer.__setitem__ / __getitem__ / __delitem__ / __len__ / clear for every key, value, maxsize and container content: never more than maxsize entries (also when the dispose callback fails); "
                "replacing a key disposes the old value exactly once and keeps the size; inserting with room evicts and disposes nothing; inserting when full evicts exactly one entry - never the new one when another exists - and disposes it exactly once; a lookup returns the stored "
                "value, keeps it and disposes nothing; deletion removes and disposes exactly once; clear empties the map and disposes every value exactly once; entries other than the ones named are untouched (stated for an arbitrary ghost key). "
                "(1) Lock-discipline obligations recomputed from the real ASTs on every run (discharged by evaluation): every access to RecentlyUsedContainer._container is inside `with self.lock`, the dispose callback is only "
                "called outside the lock, PoolManager's lookup-or-create is one critical section of pools.lock, PoolManager's container has no dispose callback. (2) BOUNDED: the container against a reference LRU with a dispose log for every "
                "operation sequence <= 5/6 over 3 keys x maxsize 0..3 (1.1e6 quick), PoolManager pool identity/bound for all request sequences <= 5 over 4 origins, and seeded real-thread runs. The eviction ORDER (least recently used) "
                "is decided by the bounded part only.",
    level_text="Deductive proof of the container's bound / dispose-exactly-once / content contracts per operation + lock-discipline obligations (syntactic, complete) + bounded reference-LRU equivalence (exhaustive for short sequences): linearizability follows by the trusted lock-discipline meta-theorem; the LRU order itself is bounded-only.",
    level_note="GC/finalizer clauses not decided. Thread runs are a seeded sample (the scheduler picks interleavings); the lock-discipline obligations are what covers all interleavings.",
    technique="contract-based deductive verification (pre/postconditions, frame via an arbitrary ghost key, loop invariant; z3) of RecentlyUsedContainer + syntactic lock-discipline obligations over the real AST + exhaustive bounded contract check against a reference LRU",
)

PROPS["C16"] = dict(
    contracts=[], bounded=["c16"], level="other", trusted_base=COMMON_TRUSTED,
    assumptions=["reference multimap: assignment replaces values and display name and keeps the entry's position; add appends (combine joins into the last value); names compare case-insensitively; the first-seen (or last-set) casing is displayed"],
    not_decided=["no deductive obligations: an ordered-dict + per-entry list model with whole-view postconditions was designed (DESIGN section 5 C16) but is not in the VC generator; the property is decided only within the stated bound"],
    explanation="BOUNDED only: HTTPHeaderDict against a reference case-insensitive order-preserving multimap, all observations compared after every step, for every operation sequence up to length 3 (quick) / 4 (thorough) over 36 operations and seeded random sequences up to length 30, "
                "including copies / unions / constructor copies whose both sides are mutated afterwards (independence).",
    level_text="Bounded stand-in only (exhaustive short histories + random long ones against a reference model through the real class): complete within the bound, not a proof.",
    level_note="No contract proof for this property; labelled bounded in the evidence.",
    technique="exhaustive bounded contract check of the real HTTPHeaderDict against a reference multimap (stand-in for the planned data-structure invariant proof)",
)

PROPS["C20"] = dict(
    contracts=["fields"], extra=["extra.c20_escape.check"], bounded=["c20"], level="other", trusted_base=COMMON_TRUSTED,
    assumptions=["str.translate with a literal table = simultaneous replacement (encoded as a chain of replace_all; checked that no replacement contains a translated character)"],
    not_decided=["the layout equation of encode_multipart_formdata / render_headers (loop over fields with a BytesIO): bounded only"],
    explanation="Two parts. (1) PROVED for all names and values: format_multipart_header_param(name, value) == name + '=\"' + whatwg_escape(value) + '\"' where whatwg_escape percent-encodes exactly LF, CR and the double quote (taken from the statement); and, by induction over the characters of the value (per-character, step and base lemmas discharged by z3 over the translate table read from the source, extra/c20_escape.py), the quoted value contains no raw quote, CR or LF - so a parameter value can never end the quoted string or the header line. "
                "(2) BOUNDED: encode_multipart_formdata / RequestField parsed back by a strict independent multipart parser: same number and order of parts, exact Content-Disposition parameters (WHATWG-escaped), no extra headers, byte-identical data, "
                "boundary named by the content type - for every hostile name/filename up to length 2/3 over an 11-symbol alphabet and seeded random field lists.",
    level_text="Partial proof (the escaping equation and its no-raw-delimiter consequence) + bounded strict parse-back of the real encoder (complete for names/filenames up to the stated length; not a proof).",
    level_note="Bounded part labelled bounded.",
    technique="contract-based deductive verification (string VC, z3) for the escaping rule, inductive per-character lemma (z3) over the translate table read from the source for 'no raw quote/CR/LF in a parameter value' + bounded strict parse-back of the real multipart encoder",
)

PROPS["C11"] = dict(
    contracts=["stdlib", "util_timeout", "util_retry", "util_url", "connectionpool", "util_request", "connection_request"], bounded=["c11"], level="other", trusted_base=COMMON_TRUSTED,
    assumptions=["connection boundary contracts (see C01)",
                 "http.client putrequest / putheader / endheaders / send: assumed contracts (each records what it was given in ghost counters, may raise anything, writes only through them)",
                 "the body object's tell() / seek(): assumed duck contracts (return anything / record the offset, may raise anything, do not touch urllib3's objects)",
                 "str.encode is a deterministic function of the string; str(int) is a deterministic function with str(0) == '0'; bytes %-formatting: literal text and %b exact, %x an uninterpreted function of the operand"],
    not_decided=["payload equality (the bytes sent are the body's bytes in order) is proved per chunk (each non-empty chunk is sent exactly once, framed iff chunked), not as an equation over the whole iterable; what a file/iterator yields is outside (lazy generator body chunk_readable is not under contract)",
                 "the caller's header names are assumed to be str (annotated Mapping[str, str]); wide-item buffers (D20) and one-shot iterators (D8) are known findings of the bounded part"],
    explanation="Three parts. (0) PROVED over the real code with http.client's putrequest/putheader/endheaders/send as the assumed boundary (ghost counters of framing-header lines and sends): body_to_chunks' classification "
                "(no body: unframed for GET-like methods else Content-Length 0; bytes/str: Content-Length = byte length / UTF-8 length and the payload is the body; file-like: chunked; a body is never dropped); HTTPConnection.request's framing table for EVERY header mapping "
                "(str keys), body and method: with no caller framing header exactly one of Content-Length / Transfer-Encoding is written, the terminating chunk is sent iff chunked framing is in force, empty chunks are skipped and every non-empty chunk is sent exactly once, "
                "as '%x CRLF chunk CRLF' iff chunked; a caller-supplied Content-Length / Transfer-Encoding in any letter case decides the mode and no second framing line is added; set_file_position / rewind_body over a duck-typed body: a recorded position is "
                "never replaced, a re-send returns only after seeking to exactly that position, a failed tell()/seek() surfaces as UnrewindableBodyError - never a silent skip. (1) PROVED over the real HTTPConnectionPool.urlopen: every recursion (retry after error, redirect, status retry) passes on the caller's settings unchanged (site obligation settings-carried-through-every-recursion, which includes body_pos handling "
                "being threaded through the same calls). (2) BOUNDED: 10 body kinds x sizes around the block size x 6 methods x chunked flag: exactly one framing header and framed payload == body bytes; 9 body kinds x 9 attempt histories: every re-sent body "
                "byte-identical or UnrewindableBodyError.",
    level_text="Deductive proof of the framing decision table and of the body-position functions over the real code (http.client and the body object's tell/seek at assumed contracts) + bounded wire-level contract check (exhaustive over the stated body kinds / sizes / histories) for the bytes themselves and the multi-attempt histories.",
    level_note="Known findings D8 (one-shot iterators re-sent empty) and D20 (chunked + wide-item buffer) reported as KNOWN-FINDING. Fixed: D21.",
    technique="contract-based deductive verification (pre/postconditions, loop invariants and per-iteration effects with ghost wire events on HTTPConnection.request/putheader, body_to_chunks, set_file_position, rewind_body; z3) + bounded strict parse of the emitted bytes on an in-memory socket",
)

_TLS_ASSUME = ["simulated TLS handshake = the assumed OpenSSL contract (fails iff verify_mode != CERT_NONE and the chain is untrusted, or check_hostname is on and the server name is not among the certificate names); real handshakes are outside this family",
               "ssl_wrap_socket is the only function replaced; context creation, flag handling, hostname/fingerprint assertions, tunnel set-up and request writing are the real code on an in-memory socket"]
PROPS["C07"] = dict(
    contracts=["stdlib", "ssl_match_hostname", "tls_wrap"], bounded=["c07", "c08"], level="other", trusted_base=COMMON_TRUSTED,
    assumptions=_TLS_ASSUME + ["deductive part: ssl_wrap_socket (THE HANDSHAKE), getpeercert, assert_fingerprint, _match_hostname, create_urllib3_context, resolve_cert_reqs, _connect_tls_proxy, _tunnel, _new_conn, the HTTP/2 probe and warnings.warn "
                               "are ASSUMED contracts over ghost oracles of the peer (chain_ok, fp_ok, name_ok(name)); SSLContext.verify_mode / check_hostname are modelled as plain fields (the real setters only add failures)",
                               "HTTPSConnection.connect is verified for connections without a _connect_callback; is_verified / proxy_is_verified are read as instance fields"],
    not_decided=["real certificates / real OpenSSL: everything about the handshake is the assumed contract; ca_certs loading is part of what 'configured CAs' means for the oracle chain_ok",
                 "tunnelled connections appear in the C09 table (proxy verification failure => nothing sent); _connect_tls_proxy (TLS to the proxy itself) is used at an assumed contract here",
                 "create_urllib3_context's own body (verify_mode / check_hostname defaults) is assumed as its last block states, not verified"],
    explanation="(0) PROVED for every setting, both TLS backends (IS_PYOPENSSL arbitrary) and every peer (ghost oracles), over the real _ssl_wrap_socket_and_match_hostname / HTTPSConnection.connect / HTTPSConnectionPool._validate_conn: the socket is handed back for the request only if "
                "a pinned fingerprint matched, or else (unless CERT_NONE) the chain validated and (unless assert_hostname is False) the certificate matched assert_hostname or the name given to the handshake; that name is the server_hostname override, else the tunnel target, else the host, "
                "without trailing dots (bare IP form for bracketed / zoned literals); the connection's cert_reqs / assert_hostname / assert_fingerprint / ssl_context / CA settings reach the decision unchanged; a failure after the handshake closes the socket; is_verified is True only with "
                "CERT_REQUIRED or a pin and never through a forwarding proxy; an unverified connection always triggers InsecureRequestWarning. (1) PROVED: match_hostname's dispatch (shared with C08). (2) BOUNDED, complete over the finite lattice cert_reqs x assert_hostname x assert_fingerprint x ssl_context flavour x peer trust x certificate names (720 points): through the real "
                "HTTPSConnectionPool / HTTPSConnection / _ssl_wrap_socket_and_match_hostname with a simulated handshake, a request is written only if the peer passes what the settings demand (pin equality; else chain when required and a name match unless "
                "assert_hostname is False), failures surface as SSLError, InsecureRequestWarning iff unverified. The name matcher's bounded contract (C08) is run as part of this check.",
    level_text="Deductive proof of the verification decision (which checks a peer must pass, what is reported as verified, when the warning fires) over the real code with the handshake at an assumed contract + bounded complete case analysis of the settings lattice through the real code with a simulated handshake + the match_hostname dispatch proof.",
    level_note="Everything about real TLS is an assumption. Observation D12 (no InsecureRequestWarning for an unverified origin inside a tunnel whose proxy was verified by fingerprint) is not covered by the lattice and not claimed either way.",
    technique="contract-based deductive verification (pre/postconditions with ghost peer oracles on _ssl_wrap_socket_and_match_hostname, HTTPSConnection.connect, HTTPSConnectionPool._validate_conn, match_hostname; z3) + bounded exhaustive case analysis of the TLS settings lattice through the real code (simulated handshake)",
)
PROPS["C09"] = dict(
    contracts=["stdlib", "util_timeout", "util_retry", "util_url", "connectionpool", "poolmanager_urlopen"], bounded=["c09"], level="other", trusted_base=COMMON_TRUSTED, assumptions=_TLS_ASSUME + _BOUNDARY,
    not_decided=["stdlib _tunnel (CONNECT exchange) and TLS are assumed; SOCKS proxies not covered"],
    explanation="(1) PROVED: connection_requires_http_tunnel implements the documented truth table (no proxy / http destination never tunnel; https via http proxy always tunnels; https via https proxy tunnels unless forwarding was opted into); "
                "PoolManager.urlopen sends absolute-form iff forwarding else origin-form (path?query, no fragment/userinfo); HTTPConnectionPool.urlopen merges proxy headers only when not tunnelling and only into a fresh copy; _make_request wraps pre-connect failures. "
                "(2) BOUNDED, complete over the routing table (144 points) on the in-memory network with simulated TLS: only the proxy is dialled, CONNECT host:port (IPv6 bracketed) with proxy headers, TLS for the destination name inside the tunnel, origin-form inside, "
                "no proxy header inside, nothing sent after a refused CONNECT or a proxy failing verification, closed pooled tunnel connections are re-tunnelled.",
    level_text="Partial proof (truth table, request form, header-merge site obligations) + bounded complete routing table through the real code.",
    level_note="TLS and the CONNECT exchange are assumed/simulated.",
    technique="contract-based deductive verification (truth table + site obligations, z3) + bounded exhaustive routing table on an in-memory network",
)
PROPS["C15"] = dict(
    contracts=["stdlib", "util_timeout", "util_retry", "util_url", "connectionpool", "poolmanager_urlopen"], bounded=["c15"], level="other", trusted_base=COMMON_TRUSTED, assumptions=_TLS_ASSUME + _BOUNDARY + ["parse_url's component split: bounded contract (C14)"],
    not_decided=["the chain of small string contracts URL -> dial host / SNI (DESIGN section 5 C15) is only partly under the VC generator (request form); the rest is decided by the bounded URL-to-wire sweep"],
    explanation="(1) PROVED over the real PoolManager.urlopen: the pool is asked to send exactly origin-form path?query ('/' when empty; never fragment or userinfo) - or the absolute URL when forwarding - with the requested method. "
                "(2) BOUNDED: 672 URL shapes (scheme case, host case, trailing dot, IPv6, zone id, IPv4, ports, path/query/fragment shapes) through the real PoolManager on the in-memory network: dial host and port, Host header, TLS server name "
                "(no brackets / zone / trailing dot), request target; equivalent URLs share a pool and produce identical bytes.",
    level_text="Partial proof (request-form site obligation) + bounded URL-to-wire sweep through the real code.",
    level_note="Host header construction is the stdlib's (assumed).",
    technique="contract-based deductive verification (site obligation with string VCs, z3) + bounded URL-to-wire sweep on an in-memory network",
)

PROPS["C03"] = dict(
    contracts=["stdlib", "util_timeout", "util_retry", "util_url", "connectionpool", "response"], bounded=["c03"], level="other", trusted_base=COMMON_TRUSTED,
    assumptions=["http.client's request/response state machine and TCP ordering (assumed)", "the poll on an idle socket (wait_for_read) truthfully reports pending bytes / EOF (simulated by the in-memory socket)"] + _RESP_ASSUME,
    not_decided=["the urllib3-owned invariant is strictly weaker than the property; the gap is the assumed http.client state machine"],
    explanation="(1) PROVED (shared with C13/C01): on every unclean exit of _raw_read/_error_catcher the connection and the original response are closed before the lease is released; release_conn returns a held lease exactly once; "
                "urlopen discards (closes, replaces by a placeholder) the connection on every translated error. (2) BOUNDED: all pairs of (8 server behaviours x 7 caller disposals) on pools of size 1-2 and seeded longer sequences through the real pool / "
                "http.client on the in-memory network: every delivered body is a prefix of that request's own body.",
    level_text="Bounded request-sequence contract through the real code (exhaustive for pairs of steps) + the error-exit obligations of the body reader; not a proof of the cross-request invariant.",
    level_note="Rests on the assumed http.client state machine.",
    technique="bounded request-sequence contract on an in-memory network + deductive error-exit obligations (VCs from the real AST, z3)",
)
PROPS["C02"] = dict(
    contracts=["stdlib", "util_timeout", "util_retry", "util_url", "connectionpool", "response", "pool_queue"], extra=["extra.c02_order.check"], bounded=["c02"], level="other", trusted_base=COMMON_TRUSTED,
    assumptions=["queue.LifoQueue is linearizable (assumed)", "attribute reads/writes are atomic under the GIL (assumed)"],
    not_decided=["eventual completion, deadlock freedom, lost wake-ups (liveness inside queue.LifoQueue): not decidable by contracts here",
                 "sockets closed after the pool object is dropped (weakref finalizer / GC): not decided",
                 "the rely/guarantee argument covers the pool attribute only (volatile, monotone to None) with the queue at an assumed linearizable contract; exclusivity of a checked-out connection follows from that contract, not from a proof about queue.LifoQueue"],
    explanation="(0) PROVED under interference: the real bodies of _get_conn and _put_conn with `self.pool` VOLATILE (every read may observe None once another thread's close() cleared it) against the lease contracts urlopen relies on: "
                "only ClosedPoolError / EmptyPoolError (and callee faults) escape _get_conn - never AttributeError - a lease is taken exactly when a connection is returned, a dropped idle connection is closed before reuse, _put_conn returns the slot or closes the connection. "
                "(1) Ordering obligations recomputed from the real AST (discharged by evaluation): close() clears self.pool before it starts draining the old queue (so a racing checkout sees a closed pool, not a drained queue it would block on); "
                "_close_pool_connections drains until queue.Empty (its loop is not cut short by an empty placeholder). (2) PROVED (shared with C01): release_conn returns a lease exactly once. (3) BOUNDED: close() over every queue content "
                "of 1-3 slots; seeded real-thread runs (exclusive use of sockets, own responses, only pool errors, no hang within 20 s, block=True bound).",
    level_text="Ordering obligations (syntactic) + bounded sequential/threaded contract checks; the concurrency clauses are NOT proved (no rely/guarantee proof was built) and the liveness clauses are not decidable here.",
    level_note="Known finding D10 (log argument self.pool.qsize() after a racing close() raises AttributeError in _put_conn) is found by the volatile-field proof and reported as KNOWN-FINDING.",
    technique="syntactic ordering obligations over the real AST + bounded sequential and seeded thread checks",
)
