"""Per-property configuration: which sidecar modules to load, extra (non-function) obligations,
what is assumed and what is not decided.  The functions verified for a property are the contracts
tagged with it (contract(q, prop=...))."""

COMMON_TRUSTED = [
    "CPython semantics as encoded in DESIGN.md section 2.3 (ints mathematical, floats as reals, left-to-right evaluation)",
    "no asynchronous exception between two bytecodes of pure code",
    "no monkey-patching; subclasses plugged in at extension points satisfy the base contract",
]

PROPS = {
    "C19": dict(
        contracts=["util_timeout"],
        trusted_base=COMMON_TRUSTED + ["floats are mathematical reals (no NaN/inf/rounding)",
                                       "time.monotonic() is non-decreasing"],
        assumptions=["Timeout(total=<the 'unset' sentinel>) is outside the contract domain (total is None or a number)"],
        not_decided=["sites in connectionpool._make_request / connection.py that apply the computed values to the socket (next build step)"],
        level_text="Deductive proof, for all argument values (None, the unset sentinel, bools, ints, reals, strings, arbitrary objects) and all elapsed times, "
                   "that the real bodies of Timeout.__init__/_validate_timeout/from_float/clone/start_connect/get_connect_duration/connect_timeout/read_timeout "
                   "meet contracts taken from the property statement: exactly the valid values are accepted; connect timeout = min(connect,total); "
                   "read timeout = max(0, min(read, total - elapsed)), never negative, never above read or total; clone() is fresh and does not copy the clock.",
        level_note="Assumes: floats are mathematical reals; time.monotonic non-decreasing; objects other than numbers define no __float__/__lt__; "
                   "total is not the 'unset' sentinel. Trusted: the pyvc VC generator, z3/cvc5. Not yet covered: the call sites in connectionpool/connection that apply these values to sockets.",
    ),
}

NOT_APPLICABLE_REASON = {}
