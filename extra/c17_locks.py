"""C17 lock discipline: finite syntactic obligations recomputed from the real ASTs on every run.
 - every access to RecentlyUsedContainer._container happens inside `with self.lock:` (except in __init__)
 - the dispose callback is never invoked inside a `with self.lock:` block
 - PoolManager's lookup-or-create of a pool is one critical section of `self.pools.lock`
 - PoolManager's own container is created without a dispose callback (a cached pool is never closed behind the caller's back)
Discharged by evaluation of the AST (no solver); the meta-theorem 'lock discipline + per-section sequential spec =>
linearizable' is trusted (listed)."""
import ast


def _inside_lock(path, lock_expr):
    for n in path:
        if isinstance(n, ast.With):
            for it in n.items:
                if ast.unparse(it.context_expr) == lock_expr:
                    return True
    return False


def _walk(node, path=()):
    yield node, path
    for ch in ast.iter_child_nodes(node):
        yield from _walk(ch, path + (node,))


def check(w, tier, seed):
    obs = []
    def ob(name, ok, detail):
        obs.append({"name": f"C17/lock-discipline/{name}", "verdict": "unsat" if ok else "sat", "backend": "finite-set", "kind": "lemma",
                    "time_s": 0.0, "trace": [detail], "model": None if ok else {"detail": detail}, "qual": None, "clause": detail})
    cls = "urllib3._collections.RecentlyUsedContainer"
    methods = [q for q in w.funcs if q.startswith(cls + ".")]
    ob("methods-found", len(methods) >= 6, f"methods of {cls}: {sorted(m.split('.')[-1] for m in methods)}")
    for q in sorted(methods):
        fi = w.funcs[q]
        name = q.split(".")[-1]
        acc = [(n, p) for n, p in _walk(fi.node) if isinstance(n, ast.Attribute) and n.attr == "_container"
               and isinstance(n.value, ast.Name) and n.value.id == "self"]
        if name != "__init__":
            bad = [n.lineno for n, p in acc if not _inside_lock(p, "self.lock")]
            ob(f"{name}:container-only-under-lock", not bad, f"{name}: {len(acc)} accesses to self._container, outside `with self.lock` at lines {bad}")
        calls = [(n, p) for n, p in _walk(fi.node) if isinstance(n, ast.Call) and ast.unparse(n.func) == "self.dispose_func"]
        bad = [n.lineno for n, p in calls if _inside_lock(p, "self.lock")]
        if calls:
            ob(f"{name}:dispose-outside-lock", not bad, f"{name}: {len(calls)} dispose calls, inside `with self.lock` at lines {bad}")
    q = "urllib3.poolmanager.PoolManager.connection_from_pool_key"
    fi = w.funcs.get(q)
    if fi is None:
        ob("connection_from_pool_key:found", False, "function missing")
    else:
        uses = [(n, p) for n, p in _walk(fi.node) if isinstance(n, ast.Attribute) and n.attr == "pools" and isinstance(n.value, ast.Name)
                and n.value.id == "self" and not (p and isinstance(p[-1], ast.Attribute) and p[-1].attr == "lock")]
        bad = [n.lineno for n, p in uses if not _inside_lock(p, "self.pools.lock")]
        ob("connection_from_pool_key:lookup-or-create-is-one-critical-section", bool(uses) and not bad,
           f"{len(uses)} uses of self.pools, outside `with self.pools.lock` at lines {bad}")
        withs = [n for n, p in _walk(fi.node) if isinstance(n, ast.With) and any(ast.unparse(i.context_expr) == "self.pools.lock" for i in n.items)]
        ok = len(withs) == 1 and any(isinstance(n, ast.Call) and ast.unparse(n.func) == "self._new_pool" for n in ast.walk(withs[0])) \
            and any(isinstance(n, ast.Call) and ast.unparse(n.func) == "self.pools.get" for n in ast.walk(withs[0]))
        ob("connection_from_pool_key:get-and-new_pool-in-the-same-section", ok, "the cache lookup and the creation+insertion of a new pool are inside one `with self.pools.lock`")
    fi = w.funcs.get("urllib3.poolmanager.PoolManager.__init__")
    ctor = [n for n in ast.walk(fi.node) if isinstance(n, ast.Call) and ast.unparse(n.func) == "RecentlyUsedContainer"] if fi else []
    ok = len(ctor) == 1 and len(ctor[0].args) <= 1 and not any(k.arg == "dispose_func" for k in ctor[0].keywords)
    ob("PoolManager:cached-pools-have-no-dispose-callback", ok, "PoolManager creates its RecentlyUsedContainer without dispose_func")
    return {"obligations": obs, "assumptions": ["lock-discipline meta-theorem: every shared access inside one lock + each critical section implements one sequential LRU operation => linearizable (trusted)",
                                                "threading.RLock: mutual exclusion, re-entrant, released on every exit of `with` (assumed)"],
            "samples": [{"obligation": o["name"], "verdict": "discharged", "backend": "finite-set", "detail": o["trace"][0]} for o in obs[:3]]}
