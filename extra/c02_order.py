"""C02 ordering obligations recomputed from the real ASTs (discharged by evaluation):
 - HTTPConnectionPool.close(): `self.pool` is set to None no later than the statement that starts draining the old queue
 - _close_pool_connections(): the drain loop only ends on queue.Empty (no break / loop condition on the item)."""
import ast


def check(w, tier, seed):
    obs = []
    def ob(name, ok, detail):
        obs.append({"name": f"C02/ordering/{name}", "verdict": "unsat" if ok else "sat", "backend": "finite-set", "kind": "lemma",
                    "time_s": 0.0, "trace": [detail], "model": None if ok else {"detail": detail}, "qual": None, "clause": detail})
    fi = w.funcs.get("urllib3.connectionpool.HTTPConnectionPool.close")
    if fi is None:
        ob("close:found", False, "HTTPConnectionPool.close missing")
    else:
        clear_line = drain_line = None
        for n in ast.walk(fi.node):
            if isinstance(n, ast.Assign):
                src = ast.unparse(n)
                tg = [ast.unparse(t) for t in n.targets]
                if any("self.pool" in t for t in tg) and ("None" in ast.unparse(n.value)):
                    clear_line = n.lineno if clear_line is None else min(clear_line, n.lineno)
            if isinstance(n, ast.Call) and ast.unparse(n.func).endswith("_close_pool_connections"):
                drain_line = n.lineno if drain_line is None else min(drain_line, n.lineno)
        ob("close:pool-disabled-before-draining", clear_line is not None and drain_line is not None and clear_line <= drain_line,
           f"self.pool = None at line {clear_line}, draining starts at line {drain_line}")
    fi = w.funcs.get("urllib3.connectionpool._close_pool_connections")
    if fi is None:
        ob("drain:found", False, "_close_pool_connections missing")
    else:
        loops = [n for n in ast.walk(fi.node) if isinstance(n, ast.While)]
        ok = len(loops) == 1 and isinstance(loops[0].test, ast.Constant) and loops[0].test.value is True \
            and not any(isinstance(n, ast.Break) for n in ast.walk(loops[0])) \
            and any(isinstance(h.type, (ast.Attribute, ast.Name)) and ast.unparse(h.type).endswith("Empty") for t in ast.walk(fi.node) if isinstance(t, ast.Try) for h in t.handlers)
        ob("drain:loop-ends-only-on-queue.Empty", ok, "the drain loop is `while True` without break, left only through `except queue.Empty`")
    return {"obligations": obs, "assumptions": ["queue.LifoQueue.get(block=False) raises queue.Empty exactly when the queue is empty (assumed)"],
            "samples": [{"obligation": o["name"], "verdict": "discharged", "backend": "finite-set", "detail": o["trace"][0]} for o in obs]}
