"""C18 completeness: every keyword the pool / connection constructors accept is part of the pool
key (or is supplied by the pool itself from keyed values).  A finite-set obligation recomputed from
the running code's signatures and ASTs on every run; discharged by evaluation (no solver needed)."""
import ast, time


def _sig_names(w, q):
    sig = w.facts["classes"][q]["init_sig"] or []
    return [p["name"] for p in sig if p["kind"] in ("POSITIONAL_OR_KEYWORD", "KEYWORD_ONLY")], any(p["kind"] == "VAR_KEYWORD" for p in sig)


def _pool_supplied(w):
    """keywords the pool itself passes to ConnectionCls(...) / stores into conn_kw (from the AST)"""
    out = set()
    for q in ("urllib3.connectionpool.HTTPConnectionPool._new_conn", "urllib3.connectionpool.HTTPSConnectionPool._new_conn"):
        fi = w.funcs.get(q)
        if not fi:
            continue
        for n in ast.walk(fi.node):
            if isinstance(n, ast.Call) and isinstance(n.func, ast.Attribute) and n.func.attr == "ConnectionCls":
                for k in n.keywords:
                    if not k.arg:
                        continue
                    if isinstance(k.value, ast.Name):
                        # a local: every value assigned to it in this function
                        for a in ast.walk(fi.node):
                            tgt = a.targets[0] if isinstance(a, ast.Assign) else getattr(a, "target", None)
                            if isinstance(a, (ast.Assign, ast.AnnAssign)) and isinstance(tgt, ast.Name) and tgt.id == k.value.id and a.value is not None:
                                out.add((k.arg, ast.unparse(a.value)))
                    else:
                        out.add((k.arg, ast.unparse(k.value)))
    fi = w.funcs["urllib3.connectionpool.HTTPConnectionPool.__init__"]
    for n in ast.walk(fi.node):
        if isinstance(n, ast.Assign) and isinstance(n.targets[0], ast.Subscript):
            t = n.targets[0]
            if ast.unparse(t.value) == "self.conn_kw" and isinstance(t.slice, ast.Constant):
                out.add((t.slice.value, ast.unparse(n.value)))
    return out


def check(w, tier, seed):
    t0 = time.time()
    fields = w.facts["classes"]["urllib3.poolmanager.PoolKey"]["namedtuple_fields"]
    keys = {f[4:] for f in fields}
    obs = []
    def ob(name, ok, detail):
        obs.append({"name": f"C18/keywords/{name}", "verdict": "unsat" if ok else "sat", "backend": "finite-set", "kind": "lemma",
                    "time_s": 0.0, "trace": [detail], "model": None if ok else {"detail": detail}, "qual": None, "clause": detail})
    ob("fields-prefixed", all(f.startswith("key_") for f in fields), f"every PoolKey field is key_<keyword>: {fields}")
    supplied = _pool_supplied(w)
    supplied_names = {k for k, _ in supplied}
    # what the pool supplies must itself be derived from keyed values (self.<keyed attr>) or host/port
    for k, expr in sorted(supplied):
        root = expr.replace("self.", "").split(".")[0].split("[")[0]
        keyed = root in keys or ("_" + root) in keys or root in ("host", "port")
        ob(f"pool-supplied:{k}", keyed, f"ConnectionCls keyword {k}={expr} is derived from a keyed pool attribute")
    for cls in ("urllib3.connectionpool.HTTPConnectionPool", "urllib3.connectionpool.HTTPSConnectionPool",
                "urllib3.connection.HTTPConnection", "urllib3.connection.HTTPSConnection"):
        names, var_kw = _sig_names(w, cls)
        for n in names:
            if n == "self":
                continue
            ok = n in keys or n in supplied_names
            ob(f"covered:{cls.split('.')[-1]}.{n}", ok, f"constructor keyword {n} of {cls} is a PoolKey field or supplied by the pool")
    return {"obligations": obs, "assumptions": ["equality/hash of opaque key values (ssl_context, Timeout, Retry) is identity or their own __eq__"],
            "samples": [{"obligation": o["name"], "verdict": "discharged", "backend": "finite-set", "detail": o["trace"][0]} for o in obs[:2]]}
