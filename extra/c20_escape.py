"""C20 consequence lemma: the quoted parameter value written by format_multipart_header_param never
contains a raw double quote, CR or LF - for every value, by induction over its characters.

The translate table is read from the real AST on every run.  Obligations (z3, strings):
  per-char/<f>   for every one-character string c: E(c) = table.get(ord(c), c) does not contain f
  step/<f>       not contains(x, f) and not contains(e, f) and len(f) == 1  =>  not contains(x + e, f)
  base/<f>       not contains("", f)
  shape          (syntactic) the function returns f'{name}="{X}"' where X is bound to <expr>.translate(<that table>)
With the assumed stdlib contract "str.translate(table)(s) = concatenation of E(s[i])" these give, by induction on
len(s), that X contains none of the three characters; so the only raw quotes in the result are the two delimiters.
A failing per-char obligation yields the character as the failing input (replayed on the real function)."""
import ast, time

FORBIDDEN = ['"', "\r", "\n"]
QUAL = "urllib3.fields.format_multipart_header_param"
CLAUSE = "'\"' not in result[len(name) + 2:-1] and '\\r' not in result[len(name):] and '\\n' not in result[len(name):]"


def _find(w):
    fi = w.funcs.get(QUAL)
    if not fi:
        return None, "function not found"
    fn = fi.node
    ret = [n for n in ast.walk(fn) if isinstance(n, ast.Return)]
    if len(ret) != 1 or not isinstance(ret[0].value, ast.JoinedStr):
        return None, "return is not a single f-string"
    parts = ret[0].value.values
    if not (len(parts) == 4 and isinstance(parts[0], ast.FormattedValue) and isinstance(parts[1], ast.Constant) and parts[1].value == '="'
            and isinstance(parts[2], ast.FormattedValue) and isinstance(parts[3], ast.Constant) and parts[3].value == '"'
            and parts[2].conversion == -1 and parts[2].format_spec is None and isinstance(parts[2].value, ast.Name)):
        return None, "returned f-string is not {name}=\"{X}\""
    x = parts[2].value.id
    # the last top-level assignment to X before the return must be <expr>.translate(<literal dict>)
    last = None
    for st in fn.body:
        if isinstance(st, ast.Assign) and len(st.targets) == 1 and isinstance(st.targets[0], ast.Name) and st.targets[0].id == x:
            last = st
        elif st is not ret[0] and any(isinstance(n, ast.Name) and n.id == x and isinstance(n.ctx, ast.Store) for n in ast.walk(st)) \
                and not (isinstance(st, ast.If)):
            last = None
    if last is None or fn.body[-1] is not ret[0] or fn.body[-2] is not last:
        return None, f"the statement before the return is not an assignment to {x}"
    v = last.value
    if not (isinstance(v, ast.Call) and isinstance(v.func, ast.Attribute) and v.func.attr == "translate" and len(v.args) == 1
            and isinstance(v.args[0], ast.Dict)):
        return None, f"{x} is not bound to <expr>.translate(<literal dict>)"
    table = {}
    for k, val in zip(v.args[0].keys, v.args[0].values):
        if not (isinstance(k, ast.Constant) and isinstance(k.value, int) and isinstance(val, ast.Constant) and isinstance(val.value, (str, type(None)))):
            return None, "translate table is not a literal int -> str/None mapping"
        table[k.value] = val.value if val.value is not None else ""
    return table, None


def check(w, tier, seed):
    import z3
    obs, undecided = [], []
    table, why = _find(w)
    if table is None:
        return {"obligations": [], "undecided": [f"C20/escape-lemma: shape not recognised ({why}); the consequence lemma does not apply to this code"]}

    def zs(s):
        return z3.StringVal(s)

    def ob(name, verdict, t, detail, model=None):
        obs.append({"name": f"C20/escape-lemma/{name}", "verdict": verdict, "backend": "z3", "kind": "post" if model else "lemma",
                    "time_s": round(t, 4), "trace": [detail], "model": model, "qual": QUAL if model else None, "clause": CLAUSE if model else detail,
                    "func": QUAL})

    def solve(name, hyps, goal, detail, witness=None):
        s = z3.Solver(); s.set("timeout", 20000)
        s.add(*hyps); s.add(z3.Not(goal))
        t = time.time(); r = s.check(); t = time.time() - t
        if r == z3.unsat:
            ob(name, "unsat", t, detail)
        elif r == z3.sat:
            model = None
            if witness is not None:
                cv = s.model().eval(witness, model_completion=True)
                model = {"name": "n", "value": cv.as_string().encode("latin-1", "backslashreplace").decode("unicode_escape") if hasattr(cv, "as_string") else str(cv)}
            ob(name, "sat", t, detail, model)
        else:
            undecided.append(f"C20/escape-lemma/{name}: solver unknown")

    c, x, e = z3.String("c"), z3.String("x"), z3.String("e")
    E = c
    for k in sorted(table, reverse=True):
        E = z3.If(c == zs(chr(k)), zs(table[k]), E)
    for f in FORBIDDEN:
        fn = {'"': "quote", "\r": "CR", "\n": "LF"}[f]
        solve(f"per-char/{fn}", [z3.Length(c) == 1], z3.Not(z3.Contains(E, zs(f))),
              f"for every character c: table.get(ord(c), c) contains no raw {fn} (table read from the source: {table})", witness=c)
        solve(f"step/{fn}", [z3.Not(z3.Contains(x, zs(f))), z3.Not(z3.Contains(e, zs(f)))], z3.Not(z3.Contains(z3.Concat(x, e), zs(f))),
              f"a one-character needle ({fn}) cannot appear in x + e when it appears in neither")
        solve(f"base/{fn}", [], z3.Not(z3.Contains(zs(""), zs(f))), f"the empty string contains no {fn}")
    ob("shape", "unsat", 0.0, "the function returns f'{name}=\"{X}\"' with X bound to <expr>.translate(<literal table>) in the statement before the return")
    obs[-1]["backend"] = "finite-set"
    return {"obligations": obs, "undecided": undecided,
            "assumptions": ["str.translate(table) with an int-keyed table is the character-wise homomorphism s -> concat(table.get(ord(ch), ch) for ch in s) (CPython str semantics); induction on len(s) is the meta-step combining per-char, step and base lemmas"],
            "samples": [{"obligation": o["name"], "verdict": "discharged", "backend": o["backend"], "detail": o["trace"][0]} for o in obs[:2] if o["verdict"] == "unsat"]}
