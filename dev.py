#!/usr/bin/env python3-vt
"""Developer runner: python3-vt dev.py <contracts modules> [function-suffix ...]   (env MODEL=1 prints counter-models)"""
import sys, importlib, time, glob, os, faulthandler
faulthandler.dump_traceback_later(int(os.environ.get("DEV_TIMEOUT", "100")), exit=True)
sys.path.insert(0, os.path.dirname(os.path.abspath(__file__)))
from pyvc.world import World
from pyvc.engine import Interp
from pyvc import dsl, verify, par
import z3

def main():
    mod = sys.argv[1]
    filt = sys.argv[2:]
    w = World()
    for p in glob.glob(os.path.join(os.path.dirname(__file__), "specs", "*.py")):
        w.load_specs(p)
    dsl.REG.world = w
    for m in mod.split(","):
        importlib.import_module("contracts." + m)
    I = Interp(w, dsl.REG)
    tot = 0; bad = 0
    for q, c in dsl.REG.contracts.items():
        if c.mode != "verify" or (filt and not any(q.endswith(f) or q.split("@")[0].endswith(f) or (f.endswith("*") and f[:-1] in q) for f in filt)):
            continue
        t0 = time.time()
        r = verify.verify_function(I, q, c.prop or "C??")
        print(f"== {q}: {r.status} {r.reason} paths={r.paths} exits={r.exits} obligs={len(r.obligs)} gen={time.time()-t0:.1f}s feas={I.stats.get('feas_time',0):.1f}s merges={I.stats.get('merges',0)}", flush=True)
        def one(ob):
            rr = par.fork_call(lambda: verify.discharge(ob, int(os.environ.get("DEV_SOLVER_MS", "10000"))), 40)
            return rr[1] if rr[0] == "ok" else {"verdict": "unknown", "reason": rr[0]}
        t1 = time.time()
        res = par.fork_map(one, r.obligs, 14)
        by = {}
        for ob, rr in zip(r.obligs, res):
            d = rr[1] if rr[0] == "ok" else {"verdict": "unknown", "reason": str(rr[1])[:200]}
            e = by.setdefault(ob.name, {"n": 0, "unsat": 0, "sat": [], "unknown": []})
            e["n"] += 1
            tot += 1
            if d["verdict"] == "unsat":
                e["unsat"] += 1
            else:
                bad += 1
                e[d["verdict"] if d["verdict"] in ("sat", "unknown") else "unknown"].append((ob, d))
        print(f"   discharge {time.time()-t1:.1f}s")
        for name, e in by.items():
            if e["unsat"] == e["n"]:
                if os.environ.get("LIST") and os.environ["LIST"] in name:
                    print(f"   {name}: {e['n']} ok")
                continue
            print(f"   {name}: {e['unsat']}/{e['n']} ok, {len(e['sat'])} sat, {len(e['unknown'])} unknown")
            for ob, d in (e["sat"][:int(os.environ.get('SHOW', '2'))] + e["unknown"][:1]):
                print("      ", d["verdict"], d.get("reason", ""), "trace:", ob.trace[-int(os.environ.get('TR', '9')):])
                if os.environ.get("MODEL"):
                    print("         model:", str(d.get("model"))[:1500])
    print(f"total obligations {tot}, not discharged {bad}; feas checks {I.stats['feas_checks']}")
    if os.environ.get("NOTES"):
        print("notes:", sorted(I.stats["builtins_used"]))
main()
