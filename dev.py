#!/usr/bin/env python3-vt
"""Developer runner: python3-vt dev.py <contracts module> [function-suffix ...]"""
import sys, importlib, time, glob, os, faulthandler
faulthandler.dump_traceback_later(int(os.environ.get("DEV_TIMEOUT", "100")), exit=True)
sys.path.insert(0, os.path.dirname(os.path.abspath(__file__)))
from pyvc.world import World
from pyvc.engine import Interp
from pyvc import dsl, verify
import z3

def main():
    mod = sys.argv[1]
    filt = sys.argv[2:]
    w = World()
    for p in glob.glob(os.path.join(os.path.dirname(__file__), "specs", "*.py")):
        w.load_specs(p)
    dsl.REG.world = w
    for m in mod.split(","):
        importlib.import_module("contracts." + m)
    I = Interp(w, dsl.REG)
    tot = 0; bad = 0
    for q, c in dsl.REG.contracts.items():
        if c.mode != "verify" or (filt and not any(f in q for f in filt)):
            continue
        t0 = time.time()
        r = verify.verify_function(I, q, c.prop or "C??")
        print(f"== {q}: {r.status} {r.reason} paths={r.paths} exits={r.exits} obligs={len(r.obligs)} ({time.time()-t0:.2f}s)")
        for ob in r.obligs:
            from pyvc import par
            rr = par.fork_call(lambda ob=ob: verify.discharge(ob), 20)
            d = rr[1] if rr[0] == "ok" else {"verdict": "unknown", "reason": rr[0]}
            tot += 1
            if d["verdict"] != "unsat":
                bad += 1
                print("   ", ob.name, d["verdict"], d.get("reason", ""), d.get("model"), "trace:", ob.trace[-6:])
    print(f"total obligations {tot}, not discharged {bad}; feas checks {I.stats['feas_checks']}")
    print("notes:", sorted(I.stats["builtins_used"]))
main()
