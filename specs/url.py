# Spec functions for urllib3.util.url


def encoded_ok(s):
    return True
