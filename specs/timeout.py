# Spec functions for urllib3.util.timeout (pure Python; parsed by the prover, importable natively).
# `_DEFAULT_TIMEOUT` is the module singleton of urllib3.util.timeout (resolved from the facts table).


def is_num(v):
    return isinstance(v, (int, float)) and not isinstance(v, bool)


def valid_tv(v):
    """exactly what the statement allows as a timeout value: None, 'unset', or a non-bool number > 0"""
    return v is None or v is _DEFAULT_TIMEOUT or (is_num(v) and v > 0)


def valid_timeout(t):
    return (valid_tv(t._connect) and valid_tv(t._read) and valid_tv(t.total)
            and t.total is not _DEFAULT_TIMEOUT
            and (t._start_connect is None or isinstance(t._start_connect, float)))


def unset(v):
    return v is None or v is _DEFAULT_TIMEOUT


def num_min(a, b):
    return b if b < a else a


def num_max(a, b):
    return b if b > a else a
