# Spec functions for urllib3.util.timeout (pure Python; parsed by the prover, importable natively).
# `_DEFAULT_TIMEOUT` is the module singleton of urllib3.util.timeout (resolved from the facts table).


def is_num(v):
    return isinstance(v, (int, float)) and not isinstance(v, bool)


def valid_tv(v):
    """exactly what the statement allows as a timeout value: None, 'unset', or a non-bool number > 0"""
    return v is None or v is _DEFAULT_TIMEOUT or (is_num(v) and v > 0)


def valid_timeout(t):
    return (valid_tv(t._connect) and valid_tv(t._read) and valid_tv(t.total)
            and t.total is not _DEFAULT_TIMEOUT
            and (t._start_connect is None or isinstance(t._start_connect, float)))


def unset(v):
    return v is None or v is _DEFAULT_TIMEOUT


def num_min(a, b):
    return b if b < a else a


def num_max(a, b):
    return b if b > a else a


def same_timeout_values(a, b):
    return a._connect is b._connect and a._read is b._read and a.total is b.total


def is_socket_timeout(err):
    return isinstance(err, K("builtins.TimeoutError"))


def has_blocking_errno(err):
    return isinstance(err, K("builtins.OSError")) and err.errno in _blocking_errnos


def effective_timeout(pool, timeout):
    """a request-level timeout fully overrides the pool's"""
    return pool.timeout if timeout is _DEFAULT_TIMEOUT else timeout


def eff_connect(pool, timeout):
    e = effective_timeout(pool, timeout)
    return e._connect if isinstance(e, Timeout) else e


def eff_read(pool, timeout):
    e = effective_timeout(pool, timeout)
    return e._read if isinstance(e, Timeout) else e


def eff_total(pool, timeout):
    e = effective_timeout(pool, timeout)
    return e.total if isinstance(e, Timeout) else None


def spec_connect(connect, total):
    """min(connect, total) with None = no limit and 'unset' = socket default"""
    return connect if total is None else (total if unset(connect) else num_min(connect, total))


def expected_connect_timeout(pool, timeout):
    return spec_connect(eff_connect(pool, timeout), eff_total(pool, timeout))


def response_wait_ok(applied, eff, elapsed):
    """the timeout applied to the response wait, given the effective (connect, read, total) and the time spent since start_connect"""
    read = eff._read if isinstance(eff, Timeout) else eff
    total = eff.total if isinstance(eff, Timeout) else None
    return (implies(total is None and not unset(read), applied is read)
            and implies(total is None and read is None, applied is None)
            and implies(total is not None, is_num(applied) and applied > 0 and applied <= total - elapsed
                        and implies(not unset(read), applied <= read)
                        and (applied == total - elapsed or (not unset(read) and applied == read))))


def same_num(a, b):
    return a is b or (is_num(a) and is_num(b) and a == b)
