# Spec functions for certificate matching (C08) and TLS verification (C07)


def host_ip_of(hostname):
    """the IP value the host denotes (zone id cut), or None for a DNS name"""
    lit = hostname[: hostname.rfind("%")] if "%" in hostname else hostname
    return uf("ip_value", lit) if bool(uf("is_ip_literal", lit)) else None


def entry_accepts(k, v, hostname):
    hip = host_ip_of(hostname)
    return ((k == "DNS" and hip is None and bool(uf("dns_ok", v, hostname)))
            or (k == "IP Address" and hip is not None and bool(uf("ip_ok", v, hip))))


def has_dns_or_ip_san(cert):
    return any(k == "DNS" or k == "IP Address" for k, v in cert["subjectAltName"])


def cn_accepts(cert, hostname, cn_enabled):
    return (cn_enabled and host_ip_of(hostname) is None and not has_dns_or_ip_san(cert) and "subject" in cert
            and any(any(k == "commonName" and bool(uf("dns_ok", v, hostname)) for k, v in rdn) for rdn in cert["subject"]))


def san_accepts(cert, hostname, cn_enabled):
    """the statement: a DNS entry is tried only for DNS hosts, an IP entry only for IP hosts (by address value);
    commonName only when enabled, the host is not an IP, and there is no DNS/IP SAN at all"""
    return any(entry_accepts(k, v, hostname) for k, v in cert["subjectAltName"]) or cn_accepts(cert, hostname, cn_enabled)


def san_has_malformed_ip(cert, hostname):
    return host_ip_of(hostname) is not None and any(k == "IP Address" and bool(uf("ip_san_malformed", v)) for k, v in cert["subjectAltName"])


def san_has_overwild(cert, hostname, cn_enabled):
    """a DNS entry (or, when consulted, a commonName) with too many wildcards rejects the certificate outright"""
    return ((host_ip_of(hostname) is None and any(k == "DNS" and bool(uf("dns_too_many_wildcards", v)) for k, v in cert["subjectAltName"]))
            or (cn_enabled and host_ip_of(hostname) is None and not has_dns_or_ip_san(cert) and "subject" in cert
                and any(any(k == "commonName" and bool(uf("dns_too_many_wildcards", v)) for k, v in rdn) for rdn in cert["subject"])))
