# Spec functions for multipart fields (C20)


def whatwg_escape(v):
    """CR, LF and the double quote are percent-encoded, everything else is kept"""
    return v.replace("\n", "%0A").replace("\r", "%0D").replace('"', "%22")
