# Spec functions for urllib3.util.retry (C04/C05/C06).


def valid_counter(x):
    """a retry counter is None (unbounded), False (the category re-raises) or an integer (bool included)"""
    return x is None or isinstance(x, int)


def is_neg(x):
    return isinstance(x, int) and x < 0


def valid_retry(r):
    return (valid_counter(r.total) and valid_counter(r.connect) and valid_counter(r.read)
            and valid_counter(r.redirect) and valid_counter(r.status) and valid_counter(r.other)
            and isinstance(r.history, tuple)
            and (r.allowed_methods is None or isinstance(r.allowed_methods, (frozenset, set)))
            and isinstance(r.status_forcelist, (frozenset, set))
            and isinstance(r.remove_headers_on_redirect, frozenset)
            and isinstance(r.raise_on_redirect, bool) and isinstance(r.raise_on_status, bool)
            and (r.raise_on_redirect is False if (r.total is False or r.redirect is False) else True)
            and isinstance(r.respect_retry_after_header, bool)
            and is_real(r.backoff_factor) and is_real(r.backoff_max) and is_real(r.backoff_jitter))


def is_real(v):
    return isinstance(v, (int, float)) and not isinstance(v, bool)


def any_negative(r):
    return (is_neg(r.total) or is_neg(r.connect) or is_neg(r.read) or is_neg(r.redirect)
            or is_neg(r.status) or is_neg(r.other))


def dec(x):
    return None if x is None else x - 1


def unwrap(e):
    return e.original_error if isinstance(e, ProxyError) else e


def is_connect_class(e):
    return isinstance(unwrap(e), ConnectTimeoutError)


def is_read_class(e):
    return isinstance(e, (ReadTimeoutError, ProtocolError))


def same_policy(a, b):
    return (a.allowed_methods is b.allowed_methods
            and (a.status_forcelist is b.status_forcelist or (not a.status_forcelist and not b.status_forcelist))
            and a.backoff_factor is b.backoff_factor and a.backoff_max is b.backoff_max
            and a.raise_on_redirect is b.raise_on_redirect and a.raise_on_status is b.raise_on_status
            and a.respect_retry_after_header is b.respect_retry_after_header
            and a.backoff_jitter is b.backoff_jitter
            and same_remove_set(a, b))


def same_remove_set(a, b):
    """the set of header names stripped on a cross-origin redirect is carried through every increment:
    the new policy's set is the (lower-cased) image of the old policy's set"""
    return a.remove_headers_on_redirect is b.remove_headers_on_redirect or uf("lowered_src", a.remove_headers_on_redirect) is b.remove_headers_on_redirect


def method_retryable(r, method):
    return not (r.allowed_methods and method.upper() not in r.allowed_methods)


def reraise_case(r, method, error):
    """the statement: retries=False re-raises the original error at once; a category set to False
    re-raises; a read-class error is re-raised when the method is not allowed to be retried"""
    return error is not None and (
        r.total is False
        or (is_connect_class(error) and r.connect is False)
        or (not is_connect_class(error) and is_read_class(error)
            and (r.read is False or method is None or not method_retryable(r, method))))


def redirect_case(error, response):
    return error is None and response is not None and bool(uf("redirect_location", response))


def status_case(error, response):
    return error is None and not redirect_case(error, response) and response is not None and bool(response.status)


def new_total(r):
    return dec(r.total)


def new_connect(r, error):
    return dec(r.connect) if (error is not None and is_connect_class(error)) else r.connect


def new_read(r, error):
    return dec(r.read) if (error is not None and not is_connect_class(error) and is_read_class(error)) else r.read


def new_other(r, error):
    return dec(r.other) if (error is not None and not is_connect_class(error) and not is_read_class(error)) else r.other


def new_redirect(r, error, response):
    return dec(r.redirect) if redirect_case(error, response) else r.redirect


def new_status(r, error, response):
    return dec(r.status) if status_case(error, response) else r.status


def exhausted_after(r, error, response):
    return (is_neg(new_total(r)) or is_neg(new_connect(r, error)) or is_neg(new_read(r, error))
            or is_neg(new_other(r, error)) or is_neg(new_redirect(r, error, response))
            or is_neg(new_status(r, error, response)))


def retry_after_status(code):
    return code == 413 or code == 429 or code == 503


def spec_is_retry(r, method, status_code, has_retry_after):
    return method_retryable(r, method) and (
        bool(r.status_forcelist and status_code in r.status_forcelist)
        or bool(r.total and r.respect_retry_after_header and has_retry_after and retry_after_status(status_code)))


def is_count(x):
    return isinstance(x, int) and x >= 0


def is_connect_class_b(e):
    """connect-class at the connection boundary: ConnectTimeoutError family, possibly wrapped in ProxyError"""
    return isinstance(e, ConnectTimeoutError) or (isinstance(e, ProxyError) and isinstance(e.original_error, ConnectTimeoutError))


def boundary_exception(e):
    """assumed shape of exceptions crossing the connection boundary: a ProxyError carries an Exception; a urllib3
    TimeoutError is a ReadTimeoutError or a ConnectTimeoutError (nothing raises the bare base class)"""
    return (not isinstance(e, EmptyPoolError)
            and implies(isinstance(e, ProxyError), isinstance(e.original_error, Exception))
            and implies(isinstance(e, K("urllib3.exceptions.TimeoutError")), isinstance(e, (ReadTimeoutError, ConnectTimeoutError))))


def tunnel_required(proxy_url, proxy_config, destination_scheme):
    """the documented routing: no proxy -> no tunnel; http destination -> forward; https destination -> CONNECT tunnel,
    unless the proxy itself is https and forwarding for https was opted into"""
    return (proxy_url is not None and destination_scheme != "http"
            and not (proxy_url.scheme == "https" and bool(proxy_config) and bool(proxy_config.use_forwarding_for_https)))


def is_int(x):
    return isinstance(x, int) and not isinstance(x, bool)


def valid_conn(c):
    """class invariant of HTTPConnection as far as the pool relies on it"""
    return c.proxy is None or isinstance(c.proxy, Url)


def valid_response(r):
    return is_int(r.status) and isinstance(r.headers, HTTPHeaderDict)


def valid_pool(p):
    """class invariant of HTTPConnectionPool as far as urlopen relies on it (established by its constructor)"""
    return (isinstance(p.timeout, Timeout) and valid_timeout(p.timeout) and p.timeout._start_connect is None
            and (p.retries is None or p.retries is False or isinstance(p.retries, (int, Retry)))
            and implies(isinstance(p.retries, Retry), valid_retry(p.retries))
            and isinstance(p.headers, dict) and isinstance(p.proxy_headers, dict)
            and (p.proxy is None or isinstance(p.proxy, Url))
            and implies(p.proxy is not None, p.proxy.scheme is None or isinstance(p.proxy.scheme, str))
            and is_int(p.num_requests)
            and (p.proxy_config is None or isinstance(p.proxy_config, ProxyConfig)))


def ghosts_typed(out, sends, waits, sleeps, clock, checkouts):
    return is_int(out) and is_int(sends) and is_int(waits) and is_int(sleeps) and isinstance(clock, float) and is_int(checkouts)


def spec_request_uri(u):
    return (u.path if u.path else "/") + (("?" + u.query) if u.query is not None else "")


def absolute_form_required(mgr, u):
    """forwarding (no CONNECT tunnel) through a proxy needs the absolute URL in the request line"""
    return mgr.proxy is not None and not tunnel_required(mgr.proxy, mgr.proxy_config, u.scheme)


def wire_form(chunk):
    """what is written for one body chunk: str chunks as UTF-8, everything else as it is"""
    return chunk.encode("utf-8") if isinstance(chunk, str) else chunk
