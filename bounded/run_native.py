"""Native runner for bounded contract checks: /venv/bin/python bounded/run_native.py <module> <tier> <seed> <shard> <nshards> [--one <case> <input-json>]
Prints one JSON object.  exit 0 always unless the harness crashed (exit 3)."""
import sys, os, json, importlib, traceback, time

VERIF = os.path.dirname(os.path.dirname(os.path.abspath(__file__)))
sys.path.insert(0, VERIF)
src = os.environ.get("PYVC_SRC", "/repo/src")
sys.path.insert(0, src)


def main():
    import urllib3
    want = os.path.realpath(os.path.join(src, "urllib3", "__init__.py"))
    if os.path.realpath(urllib3.__file__) != want:
        print(json.dumps({"error": f"imported {urllib3.__file__}, expected {want}"})); sys.exit(3)
    from bounded import HarnessError
    modname, tier, seed, shard, nshards = sys.argv[1], sys.argv[2], int(sys.argv[3]), int(sys.argv[4]), int(sys.argv[5])
    try:
        mod = importlib.import_module("bounded." + modname)
    except Exception:
        print(json.dumps({"error": "harness import failed: " + traceback.format_exc()[-1500:]})); sys.exit(3)
    known = json.loads(os.environ.get("PYVC_KNOWN", "[]"))
    if "--one" in sys.argv:
        i = sys.argv.index("--one")
        cname, inp = sys.argv[i + 1], json.loads(sys.argv[i + 2])
        case = [c for c in mod.CASES if c.name == cname][0]
        inp = mod.decode(inp) if hasattr(mod, "decode") else inp
        try:
            msg = case.check(inp)
        except HarnessError as e:
            print(json.dumps({"error": str(e)})); sys.exit(3)
        print(json.dumps({"message": msg}))
        sys.exit(1 if msg else 0)
    out = {}
    only = os.environ.get("PYVC_BOUNDED_ONLY")
    for case in mod.CASES:
        if only and case.name not in only.split(","):
            continue
        t0 = time.time()
        ev = 0; nontriv = set(); fails = []; known_hits = {}
        kn = [k for k in known if k.get("bounded_case") == case.name]
        try:
            for idx, inp in enumerate(case.gen(tier, seed)):
                if idx % nshards != shard:
                    continue
                ev += 1
                if case.nontrivial(inp):
                    nontriv.add(hash(repr(inp)))
                try:
                    msg = case.check(inp)
                except HarnessError:
                    raise
                except Exception as e_:        # the contract could not even be evaluated on what the code returned
                    msg = f"contract evaluation raised {type(e_).__name__}: {e_!r} (the code's result has a shape the contract does not allow)"
                if msg:
                    hit = None
                    for k in kn:
                        try:
                            if eval(k["witness"], {"inp": inp, "msg": msg}):
                                hit = k; break
                        except Exception:
                            pass
                    enc = mod.encode(inp) if hasattr(mod, "encode") else inp
                    if hit is not None:
                        e = known_hits.setdefault(hit["id"], {"count": 0, "example": enc, "message": msg})
                        e["count"] += 1
                    elif len(fails) < 5:
                        fails.append({"input": enc, "message": msg})
        except HarnessError as e:
            print(json.dumps({"error": f"{case.name}: {e}"})); sys.exit(3)
        except Exception:
            print(json.dumps({"error": f"{case.name}: harness crashed: " + traceback.format_exc()[-2500:]})); sys.exit(3)
        out[case.name] = {"evaluations": ev, "distinct_nontrivial": len(nontriv), "failures": fails, "known_hits": known_hits,
                          "rule": case.rule, "bound": case.bound, "exhaustive": case.exhaustive, "functions": case.functions,
                          "time_s": round(time.time() - t0, 2)}
    print(json.dumps(out, default=repr))


main()
