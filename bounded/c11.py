"""C11 bounded stand-in (cases defined next to C10's wire parser)."""
from bounded.c10 import C11_CASES as CASES  # noqa
