from bounded.c03 import C02_CASES as CASES  # noqa
