"""C07 / C09 / C15 bounded stand-ins: the real HTTPSConnection / HTTPSConnectionPool / ProxyManager code runs on the
in-memory network; only `ssl_wrap_socket` is replaced by a simulated handshake with a peer that has a certificate
(trusted or not, names, fingerprint).  The simulated handshake does what OpenSSL is assumed to do (DESIGN 4.1): it fails
when verify_mode is not CERT_NONE and the chain is untrusted, or when check_hostname is on and the server name is not
among the certificate's names.  Everything else (which checks are demanded, in which order, what is sent where) is the
real code's doing."""
import ssl, hashlib, itertools, warnings
from bounded import Case, HarnessError
from bounded.netsim import Net, FakeSocket, response

try:
    import urllib3.connection as uconn
    from urllib3 import PoolManager, ProxyManager, HTTPSConnectionPool
    from urllib3.exceptions import SSLError, MaxRetryError, ProxyError, InsecureRequestWarning, HTTPError
    from urllib3.util.retry import Retry
except Exception as e:      # pragma: no cover
    raise HarnessError(repr(e))

CERT_BYTES = {"origin": b"CERT-OF-ORIGIN", "proxy": b"CERT-OF-PROXY"}


class Peer:
    def __init__(self, who, trusted=True, names=("good.test",)):
        self.who, self.trusted, self.names = who, trusted, tuple(names)
        self.der = CERT_BYTES[who]

    def cert_dict(self):
        return {"subjectAltName": tuple(("DNS", n) for n in self.names), "subject": ((("commonName", self.names[0] if self.names else "x"),),)}


class FakeTLS:
    """a TLS layer over a FakeSocket (or over another FakeTLS for TLS-in-TLS); plaintext passes through"""

    def __init__(self, inner, peer, server_hostname, context):
        self.inner, self.peer, self.server_hostname, self.context = inner, peer, server_hostname, context

    def getpeercert(self, binary_form=False):
        return self.peer.der if binary_form else self.peer.cert_dict()

    def __getattr__(self, n):
        return getattr(self.inner, n)


class TLSNet(Net):
    """peers: {(host, port): Peer}; after a CONNECT to (h, p) through a socket, the next handshake on it is with that origin"""

    def __init__(self, handler, peers):
        Net.__init__(self, handler)
        self.peers = peers
        self.handshakes = []

    def wrap(self, sock, server_hostname=None, ssl_context=None, tls_in_tls=False, **kw):
        base = sock
        while isinstance(base, FakeTLS):
            base = base.inner
        target = getattr(base, "tunnel_target", None) or (base.host, base.port)
        peer = self.peers.get(target)
        rec = {"sock": base.id, "target": target, "server_hostname": server_hostname, "verify_mode": int(ssl_context.verify_mode),
               "check_hostname": bool(ssl_context.check_hostname), "tls_in_tls": tls_in_tls, "at_request": len(self.requests)}
        self.handshakes.append(rec)
        if peer is None:
            raise ssl.SSLError("no TLS peer at %r" % (target,))
        if ssl_context.verify_mode != ssl.CERT_NONE and not peer.trusted:
            rec["failed"] = "untrusted chain"
            raise ssl.SSLCertVerificationError(1, "certificate verify failed: untrusted")
        if ssl_context.check_hostname and server_hostname not in peer.names:
            rec["failed"] = "hostname mismatch (openssl)"
            raise ssl.SSLCertVerificationError(1, f"hostname {server_hostname!r} doesn't match")
        rec["ok"] = True
        return FakeTLS(sock, peer, server_hostname, ssl_context)

    def installed_tls(self):
        import contextlib
        @contextlib.contextmanager
        def cm():
            with self.installed():
                try:
                    old = uconn.ssl_wrap_socket
                except AttributeError as e:
                    raise HarnessError(f"patch point missing: {e}")
                uconn.ssl_wrap_socket = lambda **kw: self.wrap(**kw)
                try:
                    yield self
                finally:
                    uconn.ssl_wrap_socket = old
        return cm()


def connect_aware(handler):
    """wrap a handler so that CONNECT requests establish a tunnel on the fake socket"""
    def h(req, sock):
        parts = req["line"].split(" ")
        if parts[0] == "CONNECT":
            r = handler(req, sock)
            if r is None or r.startswith(b"HTTP/1.1 200"):
                hp = parts[1]
                host, _, port = hp.rpartition(":")
                sock.tunnel_target = (host.strip("[]"), int(port))
                return b"HTTP/1.1 200 Connection established\r\n\r\n"
            return r
        return handler(req, sock)
    return h


def fp(der, algo="sha256"):
    return hashlib.new(algo, der).hexdigest()


# ----------------------------------------------------------------------------------------------- C07
def demanded(settings, peer, name):
    """the statement: may the request be sent to this peer under these settings?"""
    cert_reqs, assert_hostname, fingerprint = settings["cert_reqs"], settings["assert_hostname"], settings["fingerprint"]
    if fingerprint is not None:
        return fingerprint == "good"
    if cert_reqs == "CERT_NONE":
        return True
    if not peer.trusted:
        return False
    if assert_hostname is False:
        return True
    ref = assert_hostname or name
    return ref in peer.names


def check_c07(inp):
    cert_reqs, assert_hostname, fingerprint, ctxmode, trusted, names_kind = inp
    names = {"match": ("good.test",), "mismatch": ("other.test",), "alt": ("alt.test",)}[names_kind]
    peer = Peer("origin", trusted, names)
    net = TLSNet(connect_aware(lambda req, sock: response(200, body=b"ok")), {("good.test", 443): peer})
    kw = {}
    if cert_reqs is not None:
        kw["cert_reqs"] = cert_reqs
    if assert_hostname is not None:
        kw["assert_hostname"] = assert_hostname
    if fingerprint is not None:
        kw["assert_fingerprint"] = fp(peer.der) if fingerprint == "good" else fp(b"something else")
    if ctxmode != "default":
        ctx = ssl.SSLContext(ssl.PROTOCOL_TLS_CLIENT)
        if ctxmode == "ctx-nocheck":
            ctx.check_hostname = False
        if ctxmode == "ctx-none":
            ctx.check_hostname = False; ctx.verify_mode = ssl.CERT_NONE
        kw["ssl_context"] = ctx
    eff_reqs = cert_reqs
    if eff_reqs is None:
        eff_reqs = "CERT_NONE" if ctxmode == "ctx-none" else "CERT_REQUIRED"
    settings = {"cert_reqs": eff_reqs, "assert_hostname": assert_hostname, "fingerprint": fingerprint}
    with warnings.catch_warnings(record=True) as wlog:
        warnings.simplefilter("always")
        with net.installed_tls():
            pool = HTTPSConnectionPool("good.test", 443, retries=False, **kw)
            try:
                r = pool.urlopen("GET", "/", retries=False)
                out = "sent"
            except (SSLError, MaxRetryError) as e:
                out = "SSLError"
            except ValueError as e:
                out = "ValueError"         # contradictory caller configuration (e.g. CERT_NONE with a check_hostname context): fine if nothing was sent
            except Exception as e:
                return f"unexpected {type(e).__name__}: {e}"
    allowed = demanded(settings, peer, "good.test")
    sent = len(net.requests) > 0
    if sent and not allowed:
        return f"request SENT over a connection that fails the configured verification: settings {settings}, ssl_context={ctxmode}, peer trusted={trusted} names={names}; handshakes {net.handshakes}"
    if not sent and out not in ("SSLError", "ValueError"):
        return f"verification failure surfaced as {out}"
    if not sent and trusted and names_kind == "match" and fingerprint in (None, "good") and assert_hostname in (None, False, "good.test") and out == "SSLError":
        return f"a trusted peer with the right name (and pin) was refused: settings {settings}, ctx={ctxmode}; handshakes {net.handshakes}"
    verified = fingerprint is not None or eff_reqs == "CERT_REQUIRED"
    insecure = [w for w in wlog if issubclass(w.category, InsecureRequestWarning)]
    if sent and not verified and not insecure:
        return f"request sent without certificate validation and without InsecureRequestWarning: {settings}"
    if sent and verified and insecure:
        return f"InsecureRequestWarning although the connection was verified: {settings}"
    return None


def gen_c07(tier, seed):
    for cert_reqs in (None, "CERT_REQUIRED", "CERT_NONE"):
        for assert_hostname in (None, False, "alt.test", "good.test"):
            for fingerprint in (None, "good", "bad"):
                for ctxmode in ("default", "ctx-check", "ctx-nocheck", "ctx-none"):
                    if ctxmode == "ctx-none" and cert_reqs is not None:
                        continue
                    for trusted in (True, False):
                        for names_kind in ("match", "mismatch", "alt"):
                            yield (cert_reqs, assert_hostname, fingerprint, ctxmode, trusted, names_kind)


# ----------------------------------------------------------------------------------------------- C09
def check_c09(inp):
    proxy_scheme, dest_scheme, forwarding, dest_host, proxy_ok, connect_status, origin_ah = inp
    proxy_url = f"{proxy_scheme}://px.test:3128"
    port = 443 if dest_scheme == "https" else 80
    host_url = f"[{dest_host}]" if ":" in dest_host else dest_host
    url = f"{dest_scheme}://{host_url}/path?q=1"
    origin_peer = Peer("origin", True, (dest_host,))
    proxy_peer = Peer("proxy", proxy_ok != "untrusted", ("px.test",) if proxy_ok != "wrong-name" else ("elsewhere.test",))
    def handler(req, sock):
        if req["line"].startswith("CONNECT"):
            return None if connect_status == 200 else response(connect_status, body=b"no")
        return response(200, body=b"ok")
    peers = {(dest_host, port): origin_peer, ("px.test", 3128): proxy_peer}
    net = TLSNet(connect_aware(handler), peers)
    with warnings.catch_warnings():
        warnings.simplefilter("ignore")
        with net.installed_tls():
            extra = {} if origin_ah is None else {"assert_hostname": origin_ah}
            m = ProxyManager(proxy_url, proxy_headers={"Proxy-Authorization": "Basic cHg="}, use_forwarding_for_https=forwarding, retries=False, **extra)
            try:
                r = m.urlopen("GET", url, headers={"X-App": "1"}, retries=False, redirect=False)
                out = "sent"
            except (ProxyError, SSLError) as e:
                out = type(e).__name__
            except MaxRetryError as e:
                out = "MaxRetryError:" + type(e.reason).__name__
            except Exception as e:
                return f"unexpected {type(e).__name__}: {e}"
    tunnel = dest_scheme == "https" and not (proxy_scheme == "https" and forwarding)
    dials = [(h, p) for h, p, _ in net.dials]
    if any(d != ("px.test", 3128) for d in dials):
        return f"a socket was opened to {dials}, not only to the proxy"
    proxy_fails = proxy_scheme == "https" and proxy_ok != "ok"
    reqs = net.requests
    if proxy_fails:
        if reqs:
            return f"proxy failed its own TLS verification but {len(reqs)} request(s) were sent: {[q['line'] for q in reqs]}"
        if "Error" not in out:
            return f"proxy verification failure surfaced as {out}"
        return None
    if tunnel:
        if not reqs or not reqs[0]["line"].startswith("CONNECT "):
            return f"https destination without a CONNECT tunnel: {[q['line'] for q in reqs]}"
        want_target = f"{host_url}:{port}"
        if reqs[0]["line"] != f"CONNECT {want_target} HTTP/1.1":
            return f"CONNECT line {reqs[0]['line']!r}, expected target {want_target!r}"
        cnames = [k.lower() for k, _ in reqs[0]["headers"]]
        if "proxy-authorization" not in cnames:
            return "proxy headers missing from the CONNECT request"
        if connect_status != 200:
            if len(reqs) > 1:
                return f"CONNECT was refused ({connect_status}) but a request was sent: {reqs[1]['line']!r}"
            if "ProxyError" not in out and "OSError" not in out:
                return f"refused CONNECT surfaced as {out}"
            return None
        if len(reqs) != 2:
            return f"{len(reqs)} requests for one tunnelled request"
        inner = reqs[1]
        if inner["line"] != "GET /path?q=1 HTTP/1.1":
            return f"inside the tunnel the request line is {inner['line']!r} (origin-form expected)"
        names = [k.lower() for k, _ in inner["headers"]]
        if "proxy-authorization" in names:
            return "Proxy-Authorization sent inside the tunnel"
        hs = [h for h in net.handshakes if h["target"] == (dest_host, port)]
        if len(hs) != 1 or hs[0]["server_hostname"] != dest_host or hs[0]["at_request"] != 1:
            return f"TLS inside the tunnel: {hs} (one handshake, after CONNECT, for server name {dest_host!r})"
    else:
        if len(reqs) != 1:
            return f"{len(reqs)} requests for one forwarded request: {[q['line'] for q in reqs]}"
        if reqs[0]["line"] != f"GET {url} HTTP/1.1":
            return f"forwarded request line {reqs[0]['line']!r} (absolute-form {url!r} expected)"
        names = [k.lower() for k, _ in reqs[0]["headers"]]
        if "proxy-authorization" not in names:
            return "proxy headers missing from the forwarded request"
        if any(h["target"] != ("px.test", 3128) for h in net.handshakes):
            return f"TLS handshake with {net.handshakes} on a forwarded request"
    if out != "sent":
        return f"unexpected outcome {out}"
    return None


def gen_c09(tier, seed):
    for proxy_scheme in ("http", "https"):
        for dest_scheme in ("http", "https"):
            for forwarding in (False, True):
                for dest_host in ("good.test", "::1", "10.0.0.1"):
                    for proxy_ok in ("ok", "untrusted", "wrong-name"):
                        for connect_status in (200, 403, 502):
                            for origin_ah in ((None, False) if (dest_scheme == "https" and not (proxy_scheme == "https" and forwarding)) else (None,)):
                                yield (proxy_scheme, dest_scheme, forwarding, dest_host, proxy_ok, connect_status, origin_ah)


def check_retunnel(inp):
    """a pooled tunnelled connection that was closed is re-tunnelled before it carries another request"""
    close_after_first = inp
    peer = Peer("origin", True, ("good.test",))
    state = {"n": 0}
    def handler(req, sock):
        if req["line"].startswith("CONNECT"):
            return None
        state["n"] += 1
        if state["n"] == 1 and close_after_first:
            return response(200, [("Connection", "close")], b"one")
        return response(200, body=b"ok")
    net = TLSNet(connect_aware(handler), {("good.test", 443): peer})
    with warnings.catch_warnings():
        warnings.simplefilter("ignore")
        with net.installed_tls():
            m = ProxyManager("http://px.test:3128", retries=False)
            for i in range(3):
                try:
                    m.urlopen("GET", "https://good.test/r%d" % i, retries=False).data
                except Exception as e:
                    return f"request {i}: {type(e).__name__}: {e}"
    per_sock = {}
    for q in net.requests:
        per_sock.setdefault(q["sock"], []).append(q["line"].split(" ")[0])
    for sid, lines in per_sock.items():
        if lines[0] != "CONNECT":
            return f"socket {sid} carried {lines} without a CONNECT first"
    return None


# ----------------------------------------------------------------------------------------------- C15
def check_c15(inp):
    scheme, host, port, path, via = inp
    hostpart = host
    url = f"{scheme}://{hostpart}{':%d' % port if port else ''}{path}"
    dial_host = host.strip("[]").lower().rstrip(".") if False else host.strip("[]")
    eff_port = port or (443 if scheme.lower() == "https" else 80)
    peers = {}
    net = TLSNet(connect_aware(lambda req, sock: response(200, body=b"ok")), peers)
    class AnyPeers(dict):
        def get(self, k, d=None):
            return Peer("origin", True, (k[0], k[0].rstrip("."), k[0].split("%")[0]))
    net.peers = AnyPeers()
    with warnings.catch_warnings():
        warnings.simplefilter("ignore")
        with net.installed_tls():
            m = PoolManager(retries=False, cert_reqs="CERT_NONE") if via == "direct" else ProxyManager("http://px.test:3128", retries=False, cert_reqs="CERT_NONE")
            try:
                m.urlopen("GET", url, retries=False)
            except Exception as e:
                return f"{type(e).__name__}: {e} for {url!r}"
    if len(net.dials) != 1:
        return f"{len(net.dials)} sockets for one request"
    dh, dp, _ = net.dials[0]
    if via == "tunnel":
        if (dh, dp) != ("px.test", 3128):
            return f"dialled {dh}:{dp} instead of the proxy"
        sn = [h["server_hostname"] for h in net.handshakes]
        want_sn = host.strip("[]").split("%")[0].lower().rstrip(".")
        if len(sn) != 1 or (sn[0] or "").lower() != want_sn:
            return f"TLS server name inside the tunnel {sn}, expected {want_sn!r} (no brackets, zone id or trailing dot)"
        return None
    want_host = host.strip("[]").lower().replace("%25", "%")
    if dh.lower().rstrip(".") != want_host.rstrip(".") and dh.lower() != want_host:
        return f"dialled {dh!r}, URL host is {host!r}"
    if dp != eff_port:
        return f"dialled port {dp}, expected {eff_port}"
    q = net.requests[-1]
    from urllib.parse import urlsplit
    exp_target = (urlsplit(url).path or "/") + (("?" + urlsplit(url).query) if "?" in url.split("#")[0] else "")
    if q["line"] != f"GET {exp_target} HTTP/1.1":
        return f"request line {q['line']!r}, expected target {exp_target!r} (no fragment, no userinfo)"
    hosts = [v.strip() for k, v in q["headers"] if k.strip().lower() == "host"]
    wh = host.lower().rstrip(".") if not host.startswith("[") else host.lower()
    if "%" in wh:
        wh = wh[:wh.index("%")] + "]"        # a zone id is local to the client: not part of Host (RFC 6874)
    exp_hosts = {wh, wh + f":{eff_port}"} if port in (None, 80, 443) else {wh + f":{port}"}
    if len(hosts) != 1 or hosts[0].lower().rstrip(".") not in {h.rstrip(".") for h in exp_hosts}:
        return f"Host header {hosts}, expected one of {sorted(exp_hosts)}"
    if scheme.lower() == "https":
        sn = [h["server_hostname"] for h in net.handshakes]
        want_sn = host.strip("[]").split("%")[0].lower().rstrip(".")
        if len(sn) != 1 or (sn[0] or "").lower() != want_sn:
            return f"TLS server name {sn}, expected {want_sn!r} (no brackets, zone id or trailing dot)"
    return None


def gen_c15(tier, seed):
    for scheme in ("http", "https", "HTTP", "hTTps"):
        for host in ("good.test", "GOOD.Test", "good.test.", "[::1]", "[fe80::1%25eth0]", "10.0.0.1", "xn--a.test"):
            for port in (None, 80, 443, 8080):
                for path in ("", "/", "/a/b?x=1", "?x=1", "/p#frag", "/a%20b?q=%41#f"):
                    yield (scheme, host, port, path, "direct")
                if scheme.lower() == "https":
                    yield (scheme, host, port, "/t", "tunnel")


def check_same_pool(inp):
    u1, u2 = inp
    net = TLSNet(connect_aware(lambda req, sock: response(200, body=b"ok")), {})
    class AnyPeers(dict):
        def get(self, k, d=None):
            return Peer("origin", True, (k[0],))
    net.peers = AnyPeers()
    with warnings.catch_warnings():
        warnings.simplefilter("ignore")
        with net.installed_tls():
            m = PoolManager(retries=False, cert_reqs="CERT_NONE")
            m.urlopen("GET", u1, retries=False); m.urlopen("GET", u2, retries=False)
            if len(m.pools) != 1:
                return f"{u1!r} and {u2!r} use {len(m.pools)} pools"
    a, b = net.requests[0], net.requests[1]
    if a["line"] != b["line"] or sorted(a["headers"]) != sorted(b["headers"]):
        return f"different bytes for equivalent URLs: {a['line']!r} {a['headers']} vs {b['line']!r} {b['headers']}"
    return None


def gen_same_pool(tier, seed):
    yield ("http://good.test/x?y", "HTTP://GOOD.TEST:80/x?y")
    yield ("https://good.test/x", "hTTps://Good.Test:443/x")
    yield ("http://good.test", "http://good.test:80/")
    yield ("https://[::1]/", "HTTPS://[::1]:443/")


CASES = [
    Case("tls/verification-lattice", gen_c07, check_c07,
         rule="cert_reqs {unset, REQUIRED, NONE} x assert_hostname {unset, False, other name, right name} x assert_fingerprint {unset, right, wrong} x ssl_context {none, check_hostname on, off, CERT_NONE} x peer "
              "{trusted, untrusted} x certificate names {match, mismatch, alt}: the request is sent iff the peer satisfies exactly the configured verification; InsecureRequestWarning iff unverified",
         bound="the full finite lattice (simulated handshake = assumed OpenSSL behaviour)", functions=["urllib3.connection._ssl_wrap_socket_and_match_hostname", "HTTPSConnection.connect", "urllib3.connectionpool.HTTPSConnectionPool._validate_conn"]),
]
C09_CASES = [
    Case("proxy/routing-table", gen_c09, check_c09,
         rule="proxy scheme x destination scheme x forwarding opt-in x destination host {name, IPv6, IPv4} x proxy certificate {ok, untrusted, wrong name} x CONNECT answer {200, 403, 502} x origin assert_hostname {unset, False}: only the proxy is dialled; tunnel iff https destination without opt-in; "
              "CONNECT target = host:port (IPv6 bracketed); proxy headers only to the proxy; origin-form + TLS for the destination name inside the tunnel; absolute-form when forwarding; nothing sent after a refused CONNECT or a proxy that fails verification",
         bound="the full finite table", functions=["urllib3.poolmanager.ProxyManager", "urllib3.connectionpool.HTTPSConnectionPool._prepare_proxy", "urllib3.connection.HTTPSConnection.connect", "_connect_tls_proxy"]),
    Case("proxy/re-tunnel-after-close", lambda tier, seed: iter([True, False]), check_retunnel,
         rule="3 sequential https requests through an http proxy, the first response closing the connection or not: every socket's first request is CONNECT",
         bound="3 requests", functions=["urllib3.connectionpool.HTTPConnectionPool.urlopen", "urllib3.connection.HTTPConnection.close"]),
]
C15_CASES = [
    Case("wire/url-to-wire", gen_c15, check_c15,
         rule="4 scheme spellings x 7 hosts (case, trailing dot, IPv6, zone id, IPv4, A-label) x ports {none, 80, 443, 8080} x 6 path/query/fragment shapes: dial host/port, Host header, TLS server name, request target",
         bound="the listed URL shapes", functions=["urllib3.poolmanager.PoolManager.urlopen", "connection_from_host", "urllib3.connection.HTTPConnection._new_conn", "HTTPSConnection.connect", "urllib3.util.url.Url.request_uri"]),
    Case("wire/equivalent-urls-same-pool-same-bytes", gen_same_pool, check_same_pool,
         rule="URL pairs differing only in scheme/host case or an explicit default port", bound="4 pairs", functions=["urllib3.poolmanager._default_key_normalizer"]),
]
