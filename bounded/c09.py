from bounded.c07 import C09_CASES as CASES  # noqa
