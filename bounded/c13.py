"""C13 bounded stand-in (cases defined next to C12's generators)."""
from bounded.c12 import C13_CASES as CASES  # noqa
