"""C14 bounded stand-in: the contract of urllib3.util.url.parse_url as executable Python, checked on
(a) every string up to a stated length over a delimiter-heavy alphabet after three prefixes,
(b) a product of hostile URL components, (c) long repetitions for the running-time clause.
The component split depends on regex capture groups (priority semantics) and is outside the deductive
engine's reach (DESIGN 2.8 / 5 C14); totality and the encoder are proved separately."""
import itertools, random, time, re
from bounded import Case, HarnessError

try:
    from urllib3.util.url import parse_url, Url
    from urllib3.exceptions import LocationParseError
except Exception as e:      # pragma: no cover
    raise HarnessError(f"cannot import parse_url: {e!r}")

ALPHA = ["a", "A", ":", "/", "?", "#", "@", "[", "]", "%", "\\", ".", "0", "2", " ", "é"]
PREFIXES = ["http://", "//", ""]

UNRESERVED = set("ABCDEFGHIJKLMNOPQRSTUVWXYZabcdefghijklmnopqrstuvwxyz0123456789._-~")
SUB = set("!$&'()*+,;=")
USERINFO = UNRESERVED | SUB | {":"}
PATHC = USERINFO | {"@", "/"}
QUERYC = PATHC | {"?"}
HEXU = set("0123456789ABCDEF")


def only_allowed(s, allowed):
    """chars of s are in `allowed` or part of an upper-case %HH escape"""
    i, n = 0, len(s)
    while i < n:
        c = s[i]
        if c == "%":
            if i + 2 >= n or s[i + 1] not in HEXU or s[i + 2] not in HEXU:
                return False
            i += 3
            continue
        if c not in allowed:
            return False
        i += 1
    return True


def ref_authority(rest):
    """Independent RFC 3986 reading of what follows '//': authority ends at the first / ? # or backslash;
    host follows the last '@'; port follows the last ':' outside brackets."""
    m = len(rest)
    for i, c in enumerate(rest):
        if c in "/?#\\":
            m = i
            break
    authority = rest[:m]
    if "@" in authority:
        userinfo, _, hostport = authority.rpartition("@")
    else:
        userinfo, hostport = None, authority
    host, port = hostport, None
    if hostport.endswith("]"):
        pass
    else:
        i = hostport.rfind(":")
        if i >= 0 and "]" not in hostport[i:]:
            host, port = hostport[:i], hostport[i + 1:]
    return authority, (userinfo or None), host, port


def stray_percent(s):
    return s is not None and len(re.findall(r"%[0-9a-fA-F]{2}", s)) != s.count("%")


def check_url(s):
    try:
        u = parse_url(s)
    except LocationParseError:
        return None
    except BaseException as e:       # totality clause
        return f"parse_url raised {type(e).__name__}: {e!r} (only LocationParseError is allowed)"
    if not isinstance(u, Url):
        return f"parse_url returned {type(u).__name__}"
    if u.port is not None and not (isinstance(u.port, int) and 0 <= u.port <= 65535):
        return f"port out of range: {u.port!r}"
    if u.scheme in ("http", "https"):
        if u.scheme != u.scheme.lower():
            return f"scheme not lower-cased: {u.scheme!r}"
        if u.host is not None and "%" not in u.host and u.host != u.host.lower():
            return f"host not lower-cased: {u.host!r}"
        if u.path:
            segs = u.path.split("/")
            if "." in segs or ".." in segs:
                return f"dot-segment left in path {u.path!r}"
            if not only_allowed(u.path, PATHC):
                return f"path has characters outside RFC 3986 / lower-case escapes: {u.path!r}"
        if u.auth and not only_allowed(u.auth, USERINFO):
            return f"userinfo has characters outside RFC 3986: {u.auth!r}"
        if u.query and not only_allowed(u.query, QUERYC):
            return f"query has characters outside RFC 3986: {u.query!r}"
        if u.fragment and not only_allowed(u.fragment, QUERYC):
            return f"fragment has characters outside RFC 3986: {u.fragment!r}"
        # valid escapes are not double-encoded (when the component has no stray '%')
        for name, comp_out in (("path", u.path), ("query", u.query), ("fragment", u.fragment), ("auth", u.auth)):
            if comp_out and "%25" in comp_out:
                # %25 may only come from a literal '%25' in the input or from a stray '%'
                if "%25" not in s and "%" in s and not stray_percent(s) and not re.search(r"%(?![0-9a-fA-F]{2})", s):
                    return f"valid escape double-encoded in {name}: {comp_out!r}"
        # idempotence
        try:
            u2 = parse_url(u.url)
        except BaseException as e:
            return f"re-parsing {u.url!r} raised {type(e).__name__}"
        if u2 != u:
            return f"not idempotent: parse_url({u.url!r}) = {tuple(u2)!r} != {tuple(u)!r}"
    # host agreement with the independent reading
    rest = None
    if s[:7].lower() == "http://":
        rest = s[7:]
    elif s[:8].lower() == "https://":
        rest = s[8:]
    elif s.startswith("//"):
        rest = s[2:]
    if rest is not None:
        authority, r_user, r_host, r_port = ref_authority(rest)
        if not authority:
            if u.host not in (None, ""):
                return f"host {u.host!r} from an empty authority"
        else:
            got_host = u.host or ""
            if r_host.isascii() and "%" not in r_host:
                if got_host != r_host.lower():
                    return f"host disagrees with RFC 3986 reading: urllib3 {u.host!r}, reference {r_host!r}"
            if r_port is not None and (r_port == "" or (r_port.isascii() and r_port.isdigit())):
                want = int(r_port) if r_port != "" else None
                if u.port != want:
                    return f"port disagrees with RFC 3986 reading: urllib3 {u.port!r}, reference {r_port!r}"
            elif r_port is None and u.port is not None:
                return f"port {u.port!r} where the reference reading has none"
            if (r_user is None) != (u.auth is None):
                return f"userinfo disagrees: urllib3 {u.auth!r}, reference {r_user!r}"
            if r_user is not None and "%" not in r_user and r_user.isascii():
                from urllib.parse import unquote
                if unquote(u.auth) != r_user:
                    return f"userinfo disagrees: urllib3 {u.auth!r}, reference {r_user!r}"
    return None


def gen_exhaustive(tier, seed):
    maxlen = 5 if tier == "quick" else 6
    maxlen = int(__import__("os").environ.get("C14_MAXLEN", maxlen))
    for n in range(0, maxlen + 1):
        for tup in itertools.product(ALPHA, repeat=n):
            body = "".join(tup)
            for p in PREFIXES:
                yield p + body


SCHEMES = ["http", "https", "HTTP", "hTTps", "ftp", None]
USERS = [None, "u", "u:p", "a@b", "é", "%41", "%zz", "a\\b", "U%3a", ""]
HOSTS = ["h.com", "H.COM", "[::1]", "[fe80::1%25eth0]", "[fe80::1%eth0]", "[FE80::A%25Eth0]", "1.2.3.4", "é.com", "xn--a.com",
         "a..b", "", "h.com.", "[::1", "::1]", "a_b", "%41.com", "256.1.1.1", "h\\x"]
PORTS = [None, "", "0", "80", "00080", "65535", "65536", "99999", "-1", "a", " 80", "8 0", "+80", "١"]
PATHS = ["", "/", "/a/./b", "/a/../b", "/../", "/%2e/", "/a b", "/é", "/a\\b", "//x", "/.", "/..", "/a/b/../../..", "/%zz", "/%4a%4B", "/a/.."]
QUERIES = [None, "", "q=1", "a b", "%", "%41", "é", "?", "x/../y", "%2f%2F"]
FRAGS = [None, "", "f", "a#b", "%", "é", "?#"]


def assemble(c):
    scheme, user, host, port, path, query, frag = c
    s = ""
    if scheme is not None:
        s += scheme + "://"
    if user is not None:
        s += user + "@"
    s += host
    if port is not None:
        s += ":" + port
    s += path
    if query is not None:
        s += "?" + query
    if frag is not None:
        s += "#" + frag
    return s


def gen_grammar(tier, seed):
    rnd = random.Random(seed)
    space = [SCHEMES, USERS, HOSTS, PORTS, PATHS, QUERIES, FRAGS]
    n = 120000 if tier == "quick" else 1200000
    # pairwise-complete first (every pair of component choices appears), then random
    for i, a in enumerate(space):
        for j, b in enumerate(space):
            if i < j:
                for x in a:
                    for y in b:
                        c = [rnd.choice(sp) for sp in space]
                        c[i], c[j] = x, y
                        yield assemble(c)
    for _ in range(n):
        yield assemble([rnd.choice(sp) for sp in space])


def gen_long(tier, seed):
    n = 100000
    units = ["a", "/", "@", "%", ":", "[", "]", "1.", "a@", "%41", "/../", "/./", "?", "#", "\\", ".", "0", "a:", ":0", "%2", "[::"]
    for pre in ("", "http://", "//", "http://h/"):
        for u in units:
            yield (pre, u, n // len(u))


def check_long(inp):
    pre, u, k = inp
    s = pre + u * k
    t0 = time.perf_counter()
    try:
        parse_url(s)
    except LocationParseError:
        pass
    except BaseException as e:
        return f"parse_url raised {type(e).__name__} on {pre!r}+{u!r}*{k}"
    dt = time.perf_counter() - t0
    if dt > 4.0:
        # confirm super-linearity at half the size before reporting (guards against a loaded machine)
        t1 = time.perf_counter()
        try:
            parse_url(pre + u * (k // 4))
        except BaseException:
            pass
        dt4 = time.perf_counter() - t1
        if dt4 * 8 < dt:
            return f"super-linear running time: {dt:.1f}s for {len(s)} chars vs {dt4:.2f}s for a quarter ({pre!r}+{u!r}*{k})"
    return None


CASES = [
    Case("parse_url/exhaustive-short-strings", gen_exhaustive, check_url,
         rule="every string over the alphabet a A : / ? # @ [ ] % \\ . 0 2 SP e-acute, after each of the prefixes 'http://', '//', ''; "
              "non-trivial = distinct input strings",
         bound="length <= 5 (quick) / <= 6 (thorough) after the prefix", functions=["urllib3.util.url.parse_url"]),
    Case("parse_url/hostile-components", gen_grammar, check_url,
         rule="pairwise-complete + random products of hostile scheme/userinfo/host/port/path/query/fragment spellings (seeded by VERIF_SEED)",
         bound="6x10x18x14x16x10x7 component spellings: all pairs + 1.2e5 (quick) / 1.2e6 (thorough) random products", exhaustive=False,
         functions=["urllib3.util.url.parse_url"]),
    Case("parse_url/running-time", gen_long, check_long,
         rule="repetitions of 21 delimiter units to 1e5 characters after 4 prefixes; fails only if > 4 s AND super-linear against a quarter-size run",
         bound="1e5 characters", exhaustive=False, functions=["urllib3.util.url.parse_url"]),
]
