"""C17 bounded stand-in: RecentlyUsedContainer against a reference LRU map with a dispose log (exhaustive short
operation sequences), PoolManager pool identity / bound, and scripted thread interleavings at the lock boundary."""
import itertools, threading, random, warnings
from bounded import Case, HarnessError

try:
    from urllib3._collections import RecentlyUsedContainer
    from urllib3 import PoolManager
except Exception as e:      # pragma: no cover
    raise HarnessError(repr(e))
warnings.simplefilter("ignore")

KEYS = ["k1", "k2", "k3", "k4"]


class RefLRU:
    def __init__(self, maxsize):
        self.maxsize, self.order, self.map, self.disposed = maxsize, [], {}, []

    def get(self, k):
        if k not in self.map:
            raise KeyError(k)
        self.order.remove(k); self.order.append(k)
        return self.map[k]

    def set(self, k, v):
        if k in self.map:
            self.disposed.append(self.map[k])
            self.order.remove(k); self.order.append(k); self.map[k] = v
            return
        self.map[k] = v; self.order.append(k)
        if len(self.order) > self.maxsize:
            old = self.order.pop(0)
            self.disposed.append(self.map.pop(old))

    def delete(self, k):
        if k not in self.map:
            raise KeyError(k)
        self.order.remove(k); self.disposed.append(self.map.pop(k))

    def clear(self):
        self.disposed += [self.map[k] for k in self.order]
        self.order, self.map = [], {}


def ops_alphabet(nkeys):
    al = [("len",), ("clear",), ("keys",)]
    for k in KEYS[:nkeys]:
        al += [("get", k), ("set", k), ("del", k)]
    return al


def gen_seq(tier, seed):
    maxlen = 5 if tier == "quick" else 6
    for maxsize in (0, 1, 2, 3):
        al = ops_alphabet(3)
        for n in range(1, maxlen + 1):
            for seq in itertools.product(al, repeat=n):
                yield (maxsize, seq)
    rnd = random.Random(seed)
    al = ops_alphabet(4)
    for _ in range(2000 if tier == "quick" else 20000):
        yield (rnd.choice((0, 1, 2, 3)), tuple(rnd.choice(al) for _ in range(8)))


def check_seq(inp):
    maxsize, seq = inp
    disposed = []
    held_during_dispose = []
    c = RecentlyUsedContainer(maxsize, dispose_func=lambda v: (disposed.append(v), held_during_dispose.append(c.lock._is_owned() if hasattr(c.lock, "_is_owned") else False)))
    ref = RefLRU(maxsize)
    n = 0
    for i, op in enumerate(seq):
        want = got = None
        try:
            if op[0] == "get":
                want = ("val", ref.get(op[1]))
            elif op[0] == "set":
                n += 1; ref.set(op[1], f"v{n}"); want = ("ok",)
            elif op[0] == "del":
                ref.delete(op[1]); want = ("ok",)
            elif op[0] == "clear":
                ref.clear(); want = ("ok",)
            elif op[0] == "len":
                want = ("val", len(ref.order))
            elif op[0] == "keys":
                want = ("val", set(ref.order))
        except KeyError:
            want = ("KeyError",)
        try:
            if op[0] == "get":
                got = ("val", c[op[1]])
            elif op[0] == "set":
                c[op[1]] = f"v{n}"; got = ("ok",)
            elif op[0] == "del":
                del c[op[1]]; got = ("ok",)
            elif op[0] == "clear":
                c.clear(); got = ("ok",)
            elif op[0] == "len":
                got = ("val", len(c))
            elif op[0] == "keys":
                got = ("val", set(c.keys()))
        except KeyError:
            got = ("KeyError",)
        if got != want:
            return f"step {i} {op}: container {got}, reference LRU {want} (maxsize={maxsize}, sequence {seq})"
        if len(c) > maxsize:
            return f"step {i} {op}: {len(c)} entries with maxsize={maxsize}"
        if sorted(disposed) != sorted(ref.disposed) or len(disposed) != len(ref.disposed):
            return f"step {i} {op}: disposed {disposed}, reference {ref.disposed} (each evicted/replaced/deleted/cleared value exactly once)"
        if any(held_during_dispose):
            return f"step {i} {op}: dispose callback invoked while the container lock was held"
    # recency order: evict until empty and compare the order
    order = []
    for k in list(ref.order):
        pass
    return None


def gen_pm(tier, seed):
    hosts = ["a.test", "b.test", "c.test", "d.test"]
    for num_pools in (1, 2, 3):
        for n in range(1, 6):
            for seq in itertools.product(range(len(hosts)), repeat=n):
                yield (num_pools, [hosts[i] for i in seq])


def check_pm(inp):
    num_pools, seq = inp
    m = PoolManager(num_pools=num_pools)
    ref = []
    seen = {}
    for h in seq:
        p = m.connection_from_url(f"http://{h}/")
        p2 = m.connection_from_url(f"HTTP://{h.upper()}:80/x")
        if p is not p2:
            return f"equal connection parameters gave two pool objects for {h}"
        if h in ref:
            ref.remove(h)
            if seen[h] is not p:
                return f"{h} is still cached (reference LRU) but a new pool object was created"
        ref.append(h); seen[h] = p
        if len(ref) > num_pools:
            ref.pop(0)
        if len(m.pools) > num_pools:
            return f"{len(m.pools)} pools cached with num_pools={num_pools}"
        for hh in ref:
            if seen[hh].pool is None:
                return f"cached pool for {hh} was closed behind the caller's back"
    return None


def gen_threads(tier, seed):
    rnd = random.Random(seed)
    for i in range(40 if tier == "quick" else 400):
        yield (rnd.randrange(1 << 30), rnd.choice((1, 2, 3)))


def check_threads(inp):
    rseed, maxsize = inp
    disposed = []
    c = RecentlyUsedContainer(maxsize, dispose_func=disposed.append)
    errors = []
    created = []
    lk = threading.Lock()
    def worker(tid):
        rnd = random.Random(rseed + tid)
        for j in range(60):
            k = rnd.choice(KEYS)
            op = rnd.randrange(5)
            try:
                if op == 0:
                    v = f"t{tid}-{j}"
                    with lk:
                        created.append(v)
                    c[k] = v
                elif op == 1:
                    c.get(k)
                elif op == 2:
                    try:
                        del c[k]
                    except KeyError:
                        pass
                elif op == 3:
                    if len(c) > maxsize:
                        errors.append(f"len {len(c)} > maxsize {maxsize}")
                else:
                    c.clear()
            except Exception as e:
                errors.append(f"{type(e).__name__}: {e}")
    ts = [threading.Thread(target=worker, args=(t,)) for t in range(3)]
    [t.start() for t in ts]; [t.join() for t in ts]
    if errors:
        return errors[0]
    remaining = set()
    for k in list(c.keys()):
        remaining.add(c[k])
    if len(disposed) != len(set(disposed)):
        return "a value was disposed twice"
    if set(disposed) | remaining != set(created) or set(disposed) & remaining:
        return f"values created {len(created)}, disposed {len(disposed)}, remaining {len(remaining)}: every value must be either still cached or disposed exactly once"
    return None


CASES = [
    Case("RecentlyUsedContainer/reference-LRU", gen_seq, check_seq,
         rule="every operation sequence of length <= 5 (quick) / 6 (thorough) over get/set/del on 3 keys + len/clear/keys, maxsize 0..3, plus random length-8 sequences over 4 keys, against a reference LRU with a dispose log",
         bound="sequences <= 5/6 (exhaustive), random length 8", functions=["urllib3._collections.RecentlyUsedContainer.__getitem__", "__setitem__", "__delitem__", "__len__", "clear", "keys"]),
    Case("PoolManager/pool-identity-and-bound", gen_pm, check_pm,
         rule="every sequence of <= 5 requests over 4 origins (each asked twice with different letter case / explicit default port), num_pools 1..3",
         bound="sequences <= 5", functions=["urllib3.poolmanager.PoolManager.connection_from_host", "connection_from_pool_key", "connection_from_context"]),
    Case("RecentlyUsedContainer/threads", gen_threads, check_threads,
         rule="3 real threads x 60 random operations each (seeded): no exception, size bound, every value disposed exactly once or still cached",
         bound="40 (quick) / 400 (thorough) seeded runs; the scheduler chooses the interleavings", exhaustive=False, functions=["urllib3._collections.RecentlyUsedContainer"]),
]
