"""C20 bounded stand-in: the multipart encoder's contract (strict parse-back) checked through the real
encode_multipart_formdata / RequestField / request_encode_body for hostile field names, filenames and data."""
import itertools, random, re
from bounded import Case, HarnessError

try:
    from urllib3.filepost import encode_multipart_formdata
    from urllib3.fields import RequestField
except Exception as e:      # pragma: no cover
    raise HarnessError(repr(e))

ALPHA = ["a", '"', "\r", "\n", ";", "\\", "=", "é", "-", " ", "%"]
DATA = [b"", b"x", b"\r\n", b"--", "text é", b"\x00\xff", b"a\r\n--b", b"--B\r\n"]


def esc(s):
    return s.replace("\n", "%0A").replace("\r", "%0D").replace('"', "%22")


def parse_strict(body, ctype):
    """independent strict multipart/form-data parser: returns [(headers(list of (name, value)), data)]"""
    m = re.fullmatch(r"multipart/form-data; boundary=(.+)", ctype)
    if not m:
        raise ValueError(f"content type {ctype!r}")
    b = m.group(1).encode("latin-1")
    delim = b"--" + b
    if not body.startswith(delim + b"\r\n") and body != delim + b"--\r\n":
        raise ValueError("body does not start with the delimiter")
    parts = []
    pos = 0
    while True:
        if body[pos:pos + len(delim) + 4] == delim + b"--\r\n":
            if pos + len(delim) + 4 != len(body):
                raise ValueError("bytes after the closing delimiter")
            return parts
        if body[pos:pos + len(delim) + 2] != delim + b"\r\n":
            raise ValueError(f"expected delimiter at {pos}")
        pos += len(delim) + 2
        hend = body.index(b"\r\n\r\n", pos)
        hlines = body[pos:hend].split(b"\r\n")
        headers = []
        for hl in hlines:
            name, sep, val = hl.partition(b": ")
            if not sep or not re.fullmatch(rb"[A-Za-z0-9-]+", name):
                raise ValueError(f"malformed header line {hl!r}")
            headers.append((name.decode(), val.decode("utf-8")))
        pos = hend + 4
        nxt = body.find(b"\r\n" + delim, pos)
        if nxt < 0:
            raise ValueError("part not terminated")
        parts.append((headers, body[pos:nxt]))
        pos = nxt + 2


def parse_disposition(v):
    """strict: token; name="..."[; filename="..."] with no raw quote/CR/LF inside the quoted strings"""
    m = re.fullmatch(r'([a-z-]+)((?:; [a-z]+="[^"\r\n]*")*)', v)
    if not m:
        raise ValueError(f"malformed Content-Disposition {v!r}")
    params = re.findall(r'; ([a-z]+)="([^"\r\n]*)"', m.group(2))
    return m.group(1), params


def check(inp):
    fields, container, boundary = inp
    fl = []
    expect = []
    for (name, filename, data, as_rf) in fields:
        dbytes = data.encode("utf-8") if isinstance(data, str) else data
        if as_rf:
            rf = RequestField(name, data, filename=filename)
            rf.make_multipart(content_type="application/x-test" if filename else None)
            fl.append(rf)
            ect = "application/x-test" if filename else None
        else:
            fl.append((name, (filename, data)) if filename is not None else (name, data))
            ect = None if filename is None else "guess"
        expect.append((name, filename, dbytes, ect))
    if container == "dict":
        if len({f[0] for f in fields}) != len(fields) or any(f[3] for f in fields):
            return None
        arg = dict(fl)
    else:
        arg = fl
    if boundary is not None and any(("--" + boundary).encode() in e[2] or e[2].endswith(b"\r\n--" + boundary.encode()[:0]) for e in expect):
        return None
    if boundary is not None and any(("\r\n--" + boundary).encode() in b"\r\n" + e[2] for e in expect):
        return None
    try:
        body, ctype = encode_multipart_formdata(arg, boundary=boundary)
    except Exception as e:
        return f"encoder raised {type(e).__name__}: {e}"
    if boundary is not None and ctype != f"multipart/form-data; boundary={boundary}":
        return f"content type {ctype!r} does not name the boundary"
    try:
        parts = parse_strict(body, ctype)
    except Exception as e:
        return f"strict parser rejects the body: {e} (body {body[:200]!r})"
    if len(parts) != len(expect):
        return f"{len(parts)} parts for {len(expect)} fields"
    for (headers, data), (name, filename, dbytes, ect) in zip(parts, expect):
        if data != dbytes:
            return f"data of field {name!r} differs: {data!r} != {dbytes!r}"
        hd = dict(headers)
        if len(hd) != len(headers):
            return f"duplicate part header in {headers!r}"
        extra = set(hd) - {"Content-Disposition", "Content-Type", "Content-Location"}
        if extra:
            return f"field content produced extra part headers {sorted(extra)}"
        try:
            kind, params = parse_disposition(hd.get("Content-Disposition", ""))
        except Exception as e:
            return str(e)
        want = [("name", esc(name))] + ([("filename", esc(filename))] if filename is not None else [])
        if kind != "form-data" or params != want:
            return f"Content-Disposition {hd.get('Content-Disposition')!r}: parameters {params} != {want} (WHATWG escaping)"
        if ect == "application/x-test" and hd.get("Content-Type") != ect:
            return f"Content-Type {hd.get('Content-Type')!r} != {ect!r}"
        if ect is None and filename is None and "Content-Type" in hd and hd["Content-Type"] is None:
            return "spurious Content-Type"
    return None


def strings(maxlen):
    for n in range(1, maxlen + 1):
        for t in itertools.product(ALPHA, repeat=n):
            yield "".join(t)


def gen(tier, seed):
    maxlen = 2 if tier == "quick" else 3
    names = list(strings(maxlen))
    # single field: every hostile name / filename, both input kinds
    for nm in names:
        for as_rf in (False, True):
            yield ([(nm, None, b"x", as_rf)], "list", "B")
            yield ([("f", nm, b"x", as_rf)], "list", "B")
    rnd = random.Random(seed)
    for _ in range(4000 if tier == "quick" else 40000):
        k = rnd.randrange(0, 5)
        fields = []
        for i in range(k):
            nm = "".join(rnd.choice(ALPHA) for _ in range(rnd.randrange(1, 6)))
            fn = None if rnd.random() < 0.5 else "".join(rnd.choice(ALPHA) for _ in range(rnd.randrange(1, 6)))
            fields.append((nm, fn, rnd.choice(DATA), rnd.random() < 0.4))
        yield (fields, rnd.choice(["list", "dict"]), rnd.choice(["B", "xYz123", None]))


CASES = [Case("multipart/strict-parse-back", gen, check,
              rule="every field name and every filename of length <= 2 (quick) / 3 (thorough) over {a \" CR LF ; \\ = e-acute - SP %} as tuple and as RequestField, plus seeded random lists of 0-4 fields (names/filenames up to 5 symbols, 8 data values incl. CRLF, dash runs, "
                   "binary, text; dict / list containers; fixed or random boundary not occurring in the data), parsed back with a strict independent parser",
              bound="names/filenames exhaustive to length 2/3; 4e3 / 4e4 random field lists", exhaustive=False,
              functions=["urllib3.filepost.encode_multipart_formdata", "urllib3.fields.RequestField.make_multipart", "render_headers", "_render_parts", "urllib3.fields.format_multipart_header_param"])]
