"""C12 / C13 bounded stand-ins: the response-reading contract checked through the real HTTPConnectionPool / http.client /
HTTPResponse on an in-memory network: every framing x coding x short call sequence (C12), every truncation point and
malformed chunk-size line x read pattern (C13)."""
import gzip, zlib, itertools, random, warnings
from bounded import Case, HarnessError
from bounded.netsim import Net, response

try:
    from urllib3.connectionpool import HTTPConnectionPool
    from urllib3.exceptions import ProtocolError, IncompleteRead, DecodeError, HTTPError
    from urllib3.util.retry import Retry
    try:
        import zstandard as zstd
    except Exception:
        zstd = None
except Exception as e:      # pragma: no cover
    raise HarnessError(repr(e))
warnings.simplefilter("ignore")


def payloads():
    return {"empty": b"", "one": b"x", "small": b"hello world", "mid": bytes(range(256)) * 3, "big": (b"abcdefghij" * 7000)}


def encode_body(coding, data):
    if coding == "identity":
        return data, None
    if coding == "gzip":
        return gzip.compress(data), "gzip"
    if coding == "gzip2":         # multi-member
        h = len(data) // 2
        return gzip.compress(data[:h]) + gzip.compress(data[h:]), "gzip"
    if coding == "deflate":
        return zlib.compress(data), "deflate"
    if coding == "rawdeflate":
        c = zlib.compressobj(wbits=-zlib.MAX_WBITS)
        return c.compress(data) + c.flush(), "deflate"
    if coding == "zstd":
        return zstd.ZstdCompressor().compress(data), "zstd"
    if coding == "zstd2":         # multi-frame
        h = len(data) // 2
        c = zstd.ZstdCompressor()
        return c.compress(data[:h]) + c.compress(data[h:]), "zstd"
    if coding == "gzip+deflate":
        return zlib.compress(gzip.compress(data)), "gzip, deflate"
    raise HarnessError(coding)


def frame(framing, raw, ce):
    hdrs = [("Content-Encoding", ce)] if ce else []
    if framing == "cl":
        return response(200, hdrs + [("Content-Length", str(len(raw)))], raw), False
    if framing == "chunked":
        sizes = [1, 2, 3, 5, 1000]
        out, i, k = b"", 0, 0
        while i < len(raw):
            n = sizes[k % len(sizes)]; k += 1
            piece = raw[i:i + n]; i += n
            ext = b";ext=1" if k % 2 else b""
            out += b"%x" % len(piece) + ext + b"\r\n" + piece + b"\r\n"
        out += b"0\r\n\r\n"
        return response(200, hdrs + [("Transfer-Encoding", "chunked")], out), False
    if framing == "close":
        return (b"HTTP/1.1 200 X\r\n" + b"".join(f"{k}: {v}\r\n".encode() for k, v in hdrs + [("Connection", "close")]) + b"\r\n" + raw), True
    raise HarnessError(framing)


OPS = [("read", 0), ("read", 1), ("read", 3), ("read", 7), ("read", 64), ("read", 1000), ("read", None), ("read1", 2), ("read1", 64), ("read1", None),
       ("readinto", 5), ("stream", 3, 2), ("stream", 64, 1), ("read_chunked", 4, 1)]


ALIVE = []          # generators are kept alive (and continued): abandoning one closes the response by design


def apply_op(r, op, decode):
    k = op[0]
    if k == "read":
        return [r.read(op[1], decode_content=decode)]
    if k == "read1":
        return [r.read1(op[1], decode_content=decode)]
    if k == "readinto":
        if decode is not True:
            pass
        b = bytearray(op[1])
        n = r.readinto(b)
        return [bytes(b[:n])]
    if k == "stream":
        out = []
        it = r.stream(op[1], decode_content=decode)
        ALIVE.append(it)
        for _ in range(op[2]):
            try:
                out.append(next(it))
            except StopIteration:
                break
        if any(p == b"" for p in out):
            raise AssertionError("stream yielded an empty piece")
        return out
    if k == "read_chunked":
        out = []
        it = r.read_chunked(op[1], decode_content=decode)
        ALIVE.append(it)
        for _ in range(op[2]):
            try:
                out.append(next(it))
            except StopIteration:
                break
        return out
    raise HarnessError(k)


def open_response(wire, closes, preload=False):
    def handler(req, sock):
        if closes:
            sock.rx.feed(wire)
            return None
        return wire
    net = Net(handler)
    cm = net.installed()
    cm.__enter__()
    pool = HTTPConnectionPool("h.test", maxsize=1, retries=False)
    r = pool.urlopen("GET", "/", preload_content=preload, retries=False)
    return net, cm, pool, r


def check_seq(inp):
    pname, coding, framing, decode, script = inp
    data = payloads()[pname]
    raw, ce = encode_body(coding, data)
    want = data if decode else raw
    wire, closes = frame(framing, raw, ce)
    net, cm, pool, r = open_response(wire, closes)
    got = []
    del ALIVE[:]
    try:
        for op in script:
            if op[0] == "read_chunked" and framing != "chunked":
                continue
            if op[0] == "readinto" and not decode:
                continue          # readinto has no decode_content parameter (the statement quantifies over explicit decode_content)
            pieces = apply_op(r, op, decode)
            if op[0] == "read" and op[1] not in (None,) and decode and len(pieces[0]) > op[1]:
                return f"read({op[1]}) returned {len(pieces[0])} bytes"
            got += pieces
        streaming = framing == "chunked" and any(o[0] in ("stream", "read_chunked") for o in script)
        if streaming:
            # finish with the same (chunk-parsing) API the script used; mixing it with read()/read1() is finding D13
            for it_ in ALIVE:
                got += list(it_)          # each suspended generator is continued to its end, in order
            got += list(r.stream(7, decode_content=decode))
        else:
            got.append(r.read(decode_content=decode))
        after = r.read(decode_content=decode)
        if after != b"":
            return f"read() after the end returned {len(after)} bytes"
    except Exception as e:
        return f"{type(e).__name__}: {str(e)[:120]} after receiving {sum(map(len, got))} of {len(want)} bytes (script {script})"
    finally:
        cm.__exit__(None, None, None)
    total = b"".join(got)
    if total != want:
        i = next((j for j in range(min(len(total), len(want))) if total[j] != want[j]), min(len(total), len(want)))
        return f"bytes differ: got {len(total)} bytes, want {len(want)}; first difference at {i} (script {script})"
    return None


def gen_seq(tier, seed):
    codings = ["identity", "gzip", "gzip2", "deflate", "rawdeflate", "gzip+deflate"] + (["zstd", "zstd2"] if zstd else [])
    maxlen = 2
    scripts = [()] + [(a,) for a in OPS] + [(a, b) for a in OPS for b in OPS]
    if tier != "quick":
        rnd = random.Random(seed)
        scripts += [tuple(rnd.choice(OPS) for _ in range(3)) for _ in range(300)]
    for pname in ("empty", "one", "small", "mid", "big"):
        for coding in codings:
            for framing in ("cl", "chunked", "close"):
                for decode in (True, False):
                    sc = scripts if pname in ("small", "mid") else scripts[:len(OPS) + 1]
                    if tier == "quick" and pname == "mid":
                        sc = scripts[:len(OPS) + 1] + scripts[len(OPS) + 1::5]
                    for script in sc:
                        if any(o[0] in ("stream", "read_chunked") for o in script[:-1]):
                            continue      # one live generator at a time, continued to its end (two interleaved generators are not modelled)
                        yield (pname, coding, framing, decode, script)


PATTERNS = ["read()", "read(n)*", "stream", "read1*", "read1()*", "read_chunked", "preload", "iter"]


def consume(r, pattern, framing):
    if pattern == "read()":
        return r.read()
    if pattern == "read(n)*":
        out = b""
        while True:
            d = r.read(7)
            if not d:
                return out
            out += d
    if pattern == "stream":
        return b"".join(r.stream(5))
    if pattern == "iter":
        return b"".join(r)
    if pattern == "read1*":
        out = b""
        while True:
            d = r.read1(9)
            if not d:
                return out
            out += d
    if pattern == "read1()*":
        out = b""
        while True:
            d = r.read1()
            if not d:
                return out
            out += d
    if pattern == "read_chunked":
        return b"".join(r.read_chunked(6, decode_content=True))
    raise HarnessError(pattern)


def check_cut(inp):
    pname, coding, framing, cut, pattern = inp
    data = payloads()[pname]
    raw, ce = encode_body(coding, data)
    wire, closes = frame(framing, raw, ce)
    head_end = wire.index(b"\r\n\r\n") + 4
    body = wire[head_end:]
    if cut >= len(body):
        return None
    if framing == "chunked" and cut > body.rindex(b"\r\n0") + 2:
        return None          # the zero-size chunk line has started to arrive: all data is there, only line terminators are missing
    cutwire = wire[:head_end + cut]
    state = {"n": 0}
    def handler(req, sock):
        state["n"] += 1
        if state["n"] == 1:
            sock.rx.feed(cutwire)
            sock.rx.eof = True
            return None
        return response(200, body=b"second")
    net = Net(handler)
    with net.installed():
        pool = HTTPConnectionPool("h.test", maxsize=1, retries=False)
        try:
            if pattern == "preload":
                r = pool.urlopen("GET", "/", preload_content=True, retries=False)
                got = r.data
            else:
                r = pool.urlopen("GET", "/", preload_content=False, retries=False)
                if pattern == "read_chunked" and framing != "chunked":
                    return None
                got = consume(r, pattern, framing)
            outcome = ("complete", len(got))
        except (ProtocolError, IncompleteRead, DecodeError) as e:
            outcome = ("error", type(e).__name__)
        except Exception as e:
            return f"{type(e).__name__}: {str(e)[:100]} (not ProtocolError/IncompleteRead/DecodeError) for cut at {cut}/{len(body)} ({pattern})"
        if outcome[0] == "complete":
            return f"a response cut at body byte {cut} of {len(body)} ({framing}, {coding}) was presented as complete by {pattern}: {outcome[1]} bytes, no exception"
        # the connection must not serve another request
        try:
            r2 = pool.urlopen("GET", "/second", retries=False)
        except Exception as e:
            return f"second request failed with {type(e).__name__}"
        used = [q["sock"] for q in net.requests]
        if len(used) >= 2 and used[1] == used[0]:
            return f"the connection that carried the truncated response was reused for the next request ({pattern}, cut {cut})"
    return None


def gen_cut(tier, seed):
    codings = ["identity", "gzip"] + (["zstd"] if zstd else [])
    for pname in ("one", "small"):
        for coding in codings:
            for framing in ("cl", "chunked"):
                data = payloads()[pname]
                raw, ce = encode_body(coding, data)
                wire, _ = frame(framing, raw, ce)
                n = len(wire) - (wire.index(b"\r\n\r\n") + 4)
                for cut in range(0, n):
                    for pattern in PATTERNS:
                        yield (pname, coding, framing, cut, pattern)
    if zstd:
        # zstd incomplete frame on a close-delimited body (no length to fall back on)
        raw, ce = encode_body("zstd", payloads()["small"])
        for cut in range(1, len(raw)):
            for pattern in ("read()", "stream", "preload"):
                yield ("small", "zstd", "close", cut, pattern)


def gen_corrupt(tier, seed):
    codings = ["gzip", "deflate"] + (["zstd"] if zstd else [])
    data = payloads()["small"] * 6
    for coding in codings:
        raw, ce = encode_body(coding, data)
        step = 1 if tier != "quick" else 2
        for pos in range(0, len(raw), step):
            for pattern in ("read()", "read(n)*", "stream", "read1*", "preload", "read_chunked"):
                yield (coding, pos, pattern)


def check_corrupt(inp):
    coding, pos, pattern = inp
    data = payloads()["small"] * 6
    raw, ce = encode_body(coding, data)
    bad = raw[:pos] + bytes([raw[pos] ^ 0x55]) + raw[pos + 1:]
    # reference: does a one-shot decoder reject it?
    try:
        if coding == "gzip":
            ref = zlib.decompressobj(16 + zlib.MAX_WBITS).decompress(bad)
        elif coding == "deflate":
            ref = zlib.decompress(bad)
        else:
            ref = zstd.ZstdDecompressor().decompressobj().decompress(bad)
        return None          # the reference decoder does not object: nothing is demanded
    except Exception:
        pass
    framing = "chunked" if pattern == "read_chunked" else "cl"
    wire, closes = frame(framing, bad, ce)
    net = Net(lambda req, sock: wire)
    with net.installed():
        pool = HTTPConnectionPool("h.test", maxsize=1, retries=False)
        try:
            if pattern == "preload":
                got = pool.urlopen("GET", "/", preload_content=True, retries=False).data
            else:
                got = consume(pool.urlopen("GET", "/", preload_content=False, retries=False), pattern, framing)
        except (ProtocolError, IncompleteRead, DecodeError):
            return None
        except Exception as e:
            return f"{type(e).__name__} (not DecodeError/ProtocolError) for {coding} corrupted at byte {pos} ({pattern})"
    return f"a {coding} stream corrupted at byte {pos} (rejected by a one-shot decoder) was presented as complete by {pattern}: {len(got)} bytes, no exception"


BAD_SIZES = [b"zz", b"", b"-5", b"g", b"5 5", b"\x00", b"+5", b" 5", b"5 ", b"0x5", b"0_5", b"5;x", b"05"]


def check_badsize(inp):
    line, pattern = inp
    body = line + b"\r\nhello\r\n0\r\n\r\n"
    wire = response(200, [("Transfer-Encoding", "chunked")], body)
    def handler(req, sock):
        return wire
    net = Net(handler)
    with net.installed():
        pool = HTTPConnectionPool("h.test", maxsize=1, retries=False)
        try:
            r = pool.urlopen("GET", "/", preload_content=False, retries=False)
            got = consume(r, pattern, "chunked")
        except (ProtocolError, IncompleteRead, DecodeError):
            return None
        except Exception as e:
            return f"{type(e).__name__} for chunk-size line {line!r}"
    well_formed = line in (b"5;x", b"05", b"5")
    if not well_formed:
        return f"malformed chunk-size line {line!r} accepted by {pattern} (returned {got!r})"
    return None


def gen_badsize(tier, seed):
    for line in BAD_SIZES:
        for pattern in ("read()", "stream", "read_chunked", "read(n)*"):
            yield (line, pattern)


CASES = [
    Case("response/read-api-sequences", gen_seq, check_seq,
         rule="5 payloads (0 B .. 70 kB) x 6-8 codings (identity, gzip, multi-member gzip, zlib/raw deflate, stacked, zstd, multi-frame zstd) x {Content-Length, chunked with extensions, close-delimited} "
              "x decode on/off x every call sequence of length <= 2 over 14 operations (read(0..1000/None), read1, readinto, stream, read_chunked) followed by read(); the concatenation must equal the payload",
         bound="call sequences <= 2 (+ final read()); quick samples every 5th length-2 sequence on the 768-byte payload", exhaustive=False,
         functions=["urllib3.response.HTTPResponse.read", "read1", "readinto", "stream", "read_chunked", "urllib3.response.BytesQueueBuffer.get", "get_all", "put"]),
]
C13_CASES = [
    Case("response/every-truncation-point", gen_cut, check_cut,
         rule="2 payloads x {identity, gzip, zstd} x {Content-Length, chunked} cut after every body/framing byte x 8 read patterns (read(), read(n) loop, stream, iteration, read1(n) loop, read1() loop, read_chunked, preload), "
              "then a second request on the same pool; plus incomplete zstd frames on close-delimited bodies",
         bound="every cut position of bodies <= 60 wire bytes", functions=["urllib3.response.HTTPResponse._raw_read", "_update_chunk_length", "_handle_chunk", "_error_catcher", "_decode", "_flush_decoder"]),
    Case("response/corrupted-compressed-stream", gen_corrupt, check_corrupt,
         rule="single-byte corruption at every (quick: every 2nd) position of a gzip / zlib / zstd body that a one-shot reference decoder rejects x 6 read patterns",
         bound="one 66-byte payload, every corruption position", functions=["urllib3.response.GzipDecoder.decompress", "DeflateDecoder.decompress", "ZstdDecoder.decompress", "HTTPResponse._decode"]),
    Case("response/malformed-chunk-size-lines", gen_badsize, check_badsize,
         rule="13 chunk-size line spellings x 4 read patterns", bound="the listed spellings", functions=["urllib3.response.HTTPResponse._update_chunk_length"]),
]
