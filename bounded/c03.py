"""C03 / C02 bounded stand-ins on the in-memory network.
C03: sequences of requests over a keep-alive pool with every server behaviour (keep-alive / close / stray bytes after
a body-less response / short body) x every caller disposal (read all, read k then release, release unread, drain,
close, ignore): each body delivered is a prefix of what the server sent for THAT request.
C02: queue/close safety - sequential queue-content cases for close(), and seeded real-thread runs."""
import itertools, threading, random, warnings, gc
from bounded import Case, HarnessError
from bounded.netsim import Net, response

try:
    from urllib3.connectionpool import HTTPConnectionPool
    from urllib3.exceptions import HTTPError, ClosedPoolError, EmptyPoolError, FullPoolError
    from urllib3.util.retry import Retry
except Exception as e:      # pragma: no cover
    raise HarnessError(repr(e))
warnings.simplefilter("ignore")

SERVER = ["cl", "cl-close", "chunked", "head-stray", "204-stray", "cl-stray-after", "short-then-eof", "304-stray", "cl-halfsplit"]
CALLER = ["read", "read3-release", "release", "drain", "close", "ignore", "stream-partial", "read1-half"]
HALF_B = b"HTTP/1.1 200 OK\r\nContent-Length: 5\r\n\r\nWRONG"       # second half of a body, still in flight: looks like a response


def body_for(i, kind=None):
    if kind == "cl-halfsplit":
        a = (f"<<half-{i}>>" * 9).encode()[:len(HALF_B)]
        return a + HALF_B
    return (f"<<response-{i}>>" * 3).encode()


def wire_for(kind, i, method):
    b = body_for(i, kind)
    if kind == "cl-halfsplit":
        return response(200, body=b), False
    if kind == "cl":
        return response(200, body=b), False
    if kind == "cl-close":
        return response(200, [("Connection", "close")], b), True
    if kind == "chunked":
        return response(200, [("Transfer-Encoding", "chunked")], b"%x\r\n%s\r\n0\r\n\r\n" % (len(b), b)), False
    if kind == "head-stray":       # body-less by method; the server wrongly sends a body after it
        return response(200, [("Content-Length", str(len(b)))], b"") + b, False
    if kind == "204-stray":
        return b"HTTP/1.1 204 No Content\r\n\r\n" + b"STRAY-BYTES-OF-%d" % i, False
    if kind == "304-stray":
        return b"HTTP/1.1 304 Not Modified\r\nContent-Length: 5\r\n\r\n" + b"STRAY", False
    if kind == "cl-stray-after":
        return response(200, body=b) + b"HTTP/1.1 200 OK\r\nContent-Length: 9\r\n\r\nUNSOLICIT", False
    if kind == "short-then-eof":
        return response(200, [("Content-Length", str(len(b) + 10))], b), True
    raise HarnessError(kind)


def check_seq(inp):
    script, maxsize = inp
    sent_for = {}
    def handler(req, sock):
        i = int(req["line"].split(" ")[1].strip("/r"))
        kind = script[i][0]
        w, closes = wire_for(kind, i, req["line"].split(" ")[0])
        sent_for[i] = w
        pend = getattr(sock, "pending_tail", None)
        if pend:
            sock.rx.feed(pend); sock.pending_tail = None          # the rest of the previous body arrives only now
        if kind == "cl-halfsplit":
            sock.pending_tail = w[-len(HALF_B):]
            return w[:-len(HALF_B)]
        if closes:
            sock.rx.feed(w)
            sock.rx.eof = True
            return None
        return w
    net = Net(handler)
    keep = []
    with net.installed():
        pool = HTTPConnectionPool("h.test", maxsize=maxsize, retries=Retry(total=2, backoff_factor=0, allowed_methods=None))
        for i, (srv, call) in enumerate(script):
            method = "HEAD" if srv == "head-stray" else "GET"
            try:
                r = pool.urlopen(method, f"/r{i}", preload_content=False)
            except HTTPError:
                continue                      # failing with a urllib3 error is allowed
            except Exception as e:
                return f"request {i}: {type(e).__name__}: {e}"
            got = b""
            try:
                if call == "read":
                    got = r.read()
                elif call == "read3-release":
                    got = r.read(3); r.release_conn()
                elif call == "release":
                    r.release_conn()
                elif call == "drain":
                    r.drain_conn()
                elif call == "close":
                    r.close()
                elif call == "ignore":
                    keep.append(r)
                elif call == "read1-half":
                    got = r.read1(len(HALF_B)); keep.append(r)
                elif call == "stream-partial":
                    it = r.stream(5); keep.append(it)
                    got = next(it, b"")
            except HTTPError:
                pass
            except Exception as e:
                return f"request {i} ({call}): {type(e).__name__}: {e}"
            # what the server sent for request i (its own body, transfer-decoded)
            own = body_for(i, srv) if srv not in ("head-stray", "204-stray", "304-stray") else b""
            if not own.startswith(got):
                return f"request {i} ({srv}, {call}) delivered {got[:60]!r}, which is not a prefix of its own body {own[:40]!r} (script {script})"
            if r.status not in (200, 204, 304):
                return f"request {i}: status {r.status}"
    return None


def gen_seq(tier, seed):
    steps = list(itertools.product(SERVER, CALLER))
    for maxsize in (1, 2):
        for a in steps:
            for b in steps:
                yield ([a, b], maxsize)
    rnd = random.Random(seed)
    for _ in range(1500 if tier == "quick" else 15000):
        n = rnd.choice((3, 4))
        yield ([rnd.choice(steps) for _ in range(n)], rnd.choice((1, 2, 3)))


# ----------------------------------------------------------------------------------------------- C02
class SpyConn:
    def __init__(self, name, log):
        self.name, self.log, self.sock = name, log, object()

    def close(self):
        self.log.append(self.name); self.sock = None


def check_close(inp):
    contents, block = inp
    pool = HTTPConnectionPool("h.test", maxsize=len(contents), block=block)
    log = []
    q = pool.pool
    while not q.empty():
        q.get_nowait()
    conns = []
    for i, c in enumerate(contents):
        if c:
            sc = SpyConn(f"c{i}", log); conns.append(sc); q.put(sc)
        else:
            q.put(None)
    pool.close()
    if pool.pool is not None:
        return "pool not disabled after close()"
    still = [c.name for c in conns if c.sock is not None]
    if still:
        return f"after close() these idle connections are still open: {still} (queue content {contents})"
    try:
        pool._get_conn()
        return "request on a closed pool did not raise ClosedPoolError"
    except ClosedPoolError:
        pass
    except Exception as e:
        return f"request on a closed pool raised {type(e).__name__}"
    return None


def gen_close(tier, seed):
    for n in (1, 2, 3):
        for contents in itertools.product((True, False), repeat=n):
            for block in (True, False):
                yield (list(contents), block)


def check_threads(inp):
    rseed, maxsize, block, with_close = inp
    lock = threading.Lock()
    in_use = {}
    errors = []
    def handler(req, sock):
        with lock:
            in_use[sock.id] = in_use.get(sock.id, 0) + 1
            if in_use[sock.id] > 1:
                errors.append(f"socket {sock.id} used by two requests at once")
        tag = req["line"].split(" ")[1]
        r = response(200, body=tag.encode())
        with lock:
            in_use[sock.id] -= 1
        return r
    net = Net(handler)
    outcomes = []
    with net.installed():
        pool = HTTPConnectionPool("h.test", maxsize=maxsize, block=block, retries=False)
        def worker(t):
            rnd = random.Random(rseed * 7 + t)
            for j in range(4):
                tag = f"/t{t}-{j}"
                try:
                    r = pool.urlopen("GET", tag, retries=False, pool_timeout=2)
                    if r.data != tag.encode():
                        errors.append(f"{tag} received {r.data!r}")
                    outcomes.append("ok")
                except (ClosedPoolError, EmptyPoolError) as e:
                    outcomes.append(type(e).__name__)
                except HTTPError as e:
                    outcomes.append(type(e).__name__)
                except Exception as e:
                    errors.append(f"internal error {type(e).__name__}: {e}")
                if with_close and t == 0 and j == rnd.randrange(4):
                    try:
                        pool.close()
                    except Exception as e:
                        errors.append(f"close(): {type(e).__name__}: {e}")
        ts = [threading.Thread(target=worker, args=(t,), daemon=True) for t in range(3)]
        [t.start() for t in ts]
        [t.join(20) for t in ts]
        if any(t.is_alive() for t in ts):
            return "a request thread is still blocked 20 s after start (hang)"
        if block and not with_close:
            live = [s for s in net.sockets if not s.closed]
            if len(live) > maxsize:
                return f"{len(live)} sockets open at once on a block=True pool with maxsize={maxsize}"
    if errors:
        return errors[0]
    return None


def gen_threads(tier, seed):
    rnd = random.Random(seed)
    for i in range(30 if tier == "quick" else 300):
        yield (rnd.randrange(1 << 20), rnd.choice((1, 2)), rnd.choice((True, False)), rnd.choice((True, False)))


CASES = [
    Case("pool/own-response-only", gen_seq, check_seq,
         rule="every pair of (server behaviour x caller disposal) steps (9 x 8)^2 on pools of size 1 and 2, plus seeded random sequences of 3-4 steps: each delivered body is a prefix of that request's own body; stray bytes, "
              "early EOF and unread bodies never leak into a later response",
         bound="sequences of 2 requests exhaustively, 3-4 randomly", functions=["urllib3.connectionpool.HTTPConnectionPool._get_conn", "_put_conn", "urlopen", "urllib3.response.HTTPResponse.release_conn", "_error_catcher", "_init_length",
                                                                                "urllib3.connection.HTTPConnection.is_connected", "getresponse"]),
]
C02_CASES = [
    Case("pool/close-drains-every-queue-content", gen_close, check_close,
         rule="every queue content of 1-3 slots (idle connection or empty placeholder) x block: close() disables the pool, closes every idle connection, later checkouts raise ClosedPoolError",
         bound="queues <= 3 slots", functions=["urllib3.connectionpool.HTTPConnectionPool.close", "urllib3.connectionpool._close_pool_connections"]),
    Case("pool/threads", gen_threads, check_threads,
         rule="3 real threads x 4 requests (seeded), maxsize 1-2, block on/off, optionally one thread calling close(): no socket used by two requests at once, every body is the request's own, only ClosedPoolError/EmptyPoolError/urllib3 errors, no hang, block=True bound",
         bound="30 (quick) / 300 (thorough) seeded runs; the scheduler chooses the interleavings", exhaustive=False,
         functions=["urllib3.connectionpool.HTTPConnectionPool._get_conn", "_put_conn", "close", "urlopen"]),
]
