from bounded.c07 import C15_CASES as CASES  # noqa
