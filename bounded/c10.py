"""C10 / C11 bounded stand-ins on the in-memory network: what reaches sendall() is parsed by a strict independent
HTTP/1.1 request parser.  C10: hostile methods / targets / header names / values.  C11: body kinds x framing x resend."""
import io, itertools, array, random, warnings, re
from bounded import Case, HarnessError
from bounded.netsim import Net, response

try:
    from urllib3.connectionpool import HTTPConnectionPool
    from urllib3 import PoolManager
    from urllib3.util.retry import Retry
    from urllib3.util.url import _encode_invalid_chars, _PATH_CHARS, _QUERY_CHARS, _USERINFO_CHARS
    from urllib3.util import SKIP_HEADER
    from urllib3.exceptions import HTTPError, UnrewindableBodyError, MaxRetryError
except Exception as e:      # pragma: no cover
    raise HarnessError(repr(e))
warnings.simplefilter("ignore")

TOKEN = re.compile(r"[!#$%&'*+\-.^_`|~0-9A-Za-z]+")


def parse_request_strict(data):
    """exactly one HTTP/1.1 request: returns (method, target, [(name, value)], body_bytes_after_head)"""
    i = data.find(b"\r\n\r\n")
    if i < 0:
        raise ValueError("no end of head")
    head = data[:i].decode("latin-1")
    lines = head.split("\r\n")
    m = re.fullmatch(r"([^ ]+) ([^ ]+) HTTP/1\.1", lines[0])
    if not m or not TOKEN.fullmatch(m.group(1)):
        raise ValueError(f"bad request line {lines[0]!r}")
    if re.search(r"[\x00-\x20\x7f]", m.group(2)):
        raise ValueError(f"control/space in target {m.group(2)!r}")
    hdrs = []
    for l in lines[1:]:
        if l[:1] in (" ", "\t") and hdrs:
            # obs-fold continuation of the previous value (accepted by http.client; it adds no header line)
            hdrs[-1] = (hdrs[-1][0], hdrs[-1][1] + "\r\n" + l)
            continue
        mm = re.fullmatch(r"([^:\r\n]+):[ \t]*(.*)", l, re.S)
        if not mm or re.search(r"\n(?![ \t])", mm.group(2)):       # (CR / LF directly followed by SP/HT is the stdlib's tolerated fold form: it starts no new header line)
            raise ValueError(f"bad header line {l!r}")
        hdrs.append((mm.group(1), mm.group(2)))
    return m.group(1), m.group(2), hdrs, data[i + 4:]


HOSTILE = ["", "a", " ", "\r", "\n", "\r\n", "\x00", "\x7f", "\t", ":", "é", "%41", "%zz", "\r\nX-Injected: 1", "\r\n\r\nGET /evil HTTP/1.1\r\nHost: x\r\n\r\n", "a b", "a\tb"]


def quote_safe(h):
    """how a hostile fragment that legitimately contains '#' would look after percent-encoding (none of ours does)"""
    return h.replace("#", "%23")


def run(method, url, headers, body=None, via="pool", chunked=False):
    net = Net(lambda req, sock: response(200, body=b"ok"))
    out = None
    with net.installed():
        try:
            if via == "pool":
                HTTPConnectionPool("h.test", retries=False).urlopen(method, url, headers=headers, body=body, chunked=chunked, retries=False)
            elif via == "manager":
                PoolManager(retries=False).request(method, "http://h.test" + url if url.startswith("/") else url, headers=headers, body=body, retries=False, redirect=False)
            else:
                from urllib3.connection import HTTPConnection
                c = HTTPConnection("h.test"); c.request(method, url, headers=headers, body=body, chunked=chunked); c.getresponse()
            out = "sent"
        except Exception as e:
            out = type(e).__name__
    wire = b"".join(d for _, d in net.wire)
    return out, wire


def check_inject(inp):
    field, hostile, via = inp
    method, url, headers = "GET", "/p", {"X-A": "1"}
    if field == "method":
        method = "GE" + hostile + "T"
    elif field == "url":
        url = "/p" + hostile + "q?x=" + hostile + "#frag" + hostile
    elif field == "url-frag-first":
        url = "/p" + hostile + "#frag" + hostile + "?x=" + hostile
    elif field == "url-no-query":
        url = "/p" + hostile + "#frag" + hostile
    elif field == "hname":
        headers = {"X-" + hostile + "N": "v"}
    elif field == "hvalue":
        headers = {"X-N": "v" + hostile + "w"}
    out, wire = run(method, url, headers, via=via)
    if out != "sent":
        if wire:
            return f"{out} raised but {len(wire)} bytes were already written: {wire[:80]!r}"
        return None
    try:
        m, target, hdrs, rest = parse_request_strict(wire)
    except ValueError as e:
        return f"not exactly one well-formed request on the wire: {e} ({wire[:160]!r})"
    if rest:
        return f"bytes after the request head of a body-less request: {rest[:80]!r}"
    names = [k.lower() for k, _ in hdrs]
    if "x-injected" in names or wire.count(b"HTTP/1.1\r\n") != 1:
        return f"caller string added a header / a second request: {wire[:200]!r}"
    if m != method and not (via == "manager" and m == method.upper()):      # PoolManager.request documents upper-casing
        return f"method on the wire {m!r} != requested {method!r}"
    if via != "conn" and ("#" in target or "frag" in target or "%23" in target.replace(quote_safe(hostile), "")):      # at connection level the caller passes the request target itself
        return f"fragment reached the wire: {target!r}"
    if field == "hvalue":
        got = dict((k.lower(), v) for k, v in hdrs).get("x-n")
        if got != headers["X-N"].lstrip(" \t"):
            return f"header value changed: {got!r} != {headers['X-N']!r}"
    for auto in ("host", "accept-encoding", "user-agent"):
        if names.count(auto) != 1:
            return f"automatic header {auto} appears {names.count(auto)} times"
    return None


def gen_inject(tier, seed):
    for field in ("method", "url", "url-frag-first", "url-no-query", "hname", "hvalue"):
        for h in HOSTILE:
            for via in ("pool", "manager", "conn"):
                yield (field, h, via)
    for a, b in itertools.product(HOSTILE, repeat=2):
        yield ("hvalue", a + b, "pool")
        yield ("url", a + b, "pool")
        if tier != "quick":
            yield ("method", a + b, "pool"); yield ("hname", a + b, "pool")


def check_auto(inp):
    supplied, skipped = inp
    headers = {}
    for n in supplied:
        headers[n] = "custom"
    for n in skipped:
        headers[n] = SKIP_HEADER
    out, wire = run("GET", "/", headers, via="conn")
    autos = {"host", "accept-encoding", "user-agent"}
    bad_skip = [n for n in skipped if n.lower() not in autos]
    if bad_skip:
        if out == "sent" or wire:
            return f"SKIP_HEADER accepted for {bad_skip} (only Host / Accept-Encoding / User-Agent may be suppressed); wire={wire[:60]!r}"
        return None
    if out != "sent":
        return f"unexpected {out}"
    m, target, hdrs, rest = parse_request_strict(wire)
    names = [k.lower() for k, _ in hdrs]
    for a in autos:
        want = 0 if a in [s.lower() for s in skipped] else 1
        if names.count(a) != want:
            return f"{a}: {names.count(a)} lines, expected {want} (supplied {supplied}, skipped {skipped})"
        if a in [s.lower() for s in supplied] and dict((k.lower(), v) for k, v in hdrs)[a] != "custom":
            return f"caller-supplied {a} was overridden"
    return None


def gen_auto(tier, seed):
    names = ["Host", "host", "Accept-Encoding", "ACCEPT-ENCODING", "User-Agent", "user-agent", "X-Other"]
    for k in range(0, 3):
        for sup in itertools.combinations(names, k):
            for j in range(0, 3):
                for sk in itertools.combinations(names, j):
                    if {s.lower() for s in sup} & {s.lower() for s in sk}:
                        continue
                    if len({s.lower() for s in sup}) != len(sup) or len({s.lower() for s in sk}) != len(sk):
                        continue
                    yield (list(sup), list(sk))


def check_encoder(inp):
    comp, which = inp
    allowed = {"path": _PATH_CHARS, "query": _QUERY_CHARS, "userinfo": _USERINFO_CHARS}[which]
    out = _encode_invalid_chars(comp, allowed)
    i = 0
    while i < len(out):
        c = out[i]
        if c == "%":
            if not re.fullmatch(r"%[0-9A-F]{2}", out[i:i + 3]):
                if not re.fullmatch(r"%[0-9A-Fa-f]{2}", out[i:i + 3]) :
                    return f"{comp!r} -> {out!r}: stray '%' at {i}"
                return f"{comp!r} -> {out!r}: lower-case escape at {i}"
            i += 3; continue
        if c not in allowed:
            return f"{comp!r} -> {out!r}: character {c!r} outside the allowed set"
        i += 1
    from urllib.parse import unquote_to_bytes
    if unquote_to_bytes(out) != unquote_to_bytes(comp.encode("utf-8", "surrogatepass")) and not re.search(r"%(?![0-9A-Fa-f]{2})", comp):
        return f"{comp!r} -> {out!r}: does not decode to the same bytes"
    return None


def gen_encoder(tier, seed):
    chars = [chr(i) for i in range(0, 256)] + ["Ā", "€", "😀", "%41", "%4a", "%zz", "%"]
    for which in ("path", "query", "userinfo"):
        for c in chars:
            yield (c, which)
        for a, b in itertools.product(["%", "%4", "%41", "%4a", "a", " ", "é", "/", "?", "#", "\r", "\n"], repeat=2):
            yield (a + b, which)


# ----------------------------------------------------------------------------------------------- C11
class NoTell(io.BytesIO):
    def tell(self):
        raise OSError("no tell")


def parse_body(rest, hdrs):
    low = {k.lower(): v for k, v in hdrs}
    has_cl, has_te = "content-length" in low, "transfer-encoding" in low
    if has_cl and has_te:
        raise ValueError("both Content-Length and Transfer-Encoding")
    if has_te:
        if low["transfer-encoding"].lower() != "chunked":
            raise ValueError("unknown transfer-encoding")
        out, i = b"", 0
        while True:
            j = rest.index(b"\r\n", i)
            if not re.fullmatch(rb"[0-9a-fA-F]+", rest[i:j]):
                raise ValueError(f"bad chunk size {rest[i:j]!r}")
            n = int(rest[i:j], 16)
            if n == 0:
                if rest[j:j + 4] != b"\r\n\r\n" or len(rest) != j + 4:
                    raise ValueError("bad terminator")
                return "chunked", out
            out += rest[j + 2:j + 2 + n]
            if rest[j + 2 + n:j + 4 + n] != b"\r\n":
                raise ValueError("chunk not followed by CRLF")
            i = j + 4 + n
    if has_cl:
        n = int(low["content-length"])
        if len(rest) != n:
            raise ValueError(f"Content-Length {n} but {len(rest)} body bytes")
        return "cl", rest
    if rest:
        raise ValueError("body bytes without framing")
    return "none", b""


BLOCK = 16384


def make_body(kind, size, offset=0):
    data = bytes((i * 7) % 251 for i in range(size))
    if kind == "none": return None, b""
    if kind == "bytes": return data, data
    if kind == "str": return "é" * (size // 2) + "x" * (size % 2), ("é" * (size // 2) + "x" * (size % 2)).encode("utf-8")
    if kind == "bytearray": return bytearray(data), data
    if kind == "array-H": a = array.array("H", [i % 65536 for i in range(size // 2)]); return a, a.tobytes()
    if kind == "file":
        f = io.BytesIO(data); f.seek(offset); return f, data[offset:]
    if kind == "textfile":
        s = "é" * size; f = io.StringIO(s); return f, s.encode("utf-8")
    if kind == "notell":
        return NoTell(data), data
    if kind == "list": return [data[:3], b"", data[3:]], data
    if kind == "gen": return (x for x in [data[:3], b"", data[3:]]), data
    raise HarnessError(kind)


def check_framing(inp):
    kind, size, method, chunked, offset = inp
    body, want = make_body(kind, size, offset)
    out, wire = run(method, "/", {}, body=body, via="conn", chunked=chunked)
    if out != "sent":
        return f"unexpected {out}"
    try:
        m, target, hdrs, rest = parse_request_strict(wire)
        framing, payload = parse_body(rest, hdrs)
    except ValueError as e:
        return f"framing error: {e}"
    if payload != want:
        return f"framed payload ({len(payload)} bytes) != body ({len(want)} bytes) for {kind}"
    sized = kind in ("bytes", "str", "bytearray", "array-H")
    if chunked:
        exp = "chunked"
    elif kind == "none":
        exp = "none" if method in ("GET", "HEAD", "DELETE", "OPTIONS", "TRACE", "CONNECT") else "cl"
    else:
        exp = "cl" if sized else "chunked"
    if framing != exp:
        return f"framing {framing}, expected {exp} ({kind}, {method}, chunked={chunked})"
    return None


def gen_framing(tier, seed):
    sizes = [0, 1, 2, BLOCK - 1, BLOCK, BLOCK + 1] + ([70000] if tier != "quick" else [])
    for kind in ("none", "bytes", "str", "bytearray", "array-H", "file", "textfile", "notell", "list", "gen"):
        for size in ([0] if kind == "none" else sizes):
            if kind == "textfile" and size > BLOCK + 1:
                continue
            for method in ("GET", "POST", "PUT", "DELETE", "HEAD", "PATCH"):
                for chunked in (False, True):
                    for offset in ((0, 1) if kind == "file" and size > 1 else (0,)):
                        yield (kind, size, method, chunked, offset)


def check_resend(inp):
    kind, size, history, offset = inp
    body, want = make_body(kind, size, offset)
    state = {"n": 0}
    def handler(req, sock):
        i = state["n"]; state["n"] += 1
        h = history[i] if i < len(history) else "ok"
        if h == "ok":
            return response(200, body=b"ok")
        if h == "503":
            return response(503, [("Retry-After", "0")])
        if h in ("307", "308", "303"):
            return response(int(h), [("Location", f"/again{i}")])
        if h == "error":
            sock.closed = True
            sock.rx.feed(b"")         # EOF: http.client raises RemoteDisconnected
            return None
        raise HarnessError(h)
    net = Net(handler)
    with net.installed():
        pool = HTTPConnectionPool("h.test", retries=Retry(total=5, status_forcelist=[503], allowed_methods=None, backoff_factor=0))
        try:
            r = pool.urlopen("PUT", "/", body=body, redirect=True)
            out = ("status", r.status)
        except UnrewindableBodyError:
            out = ("UnrewindableBodyError",)
        except MaxRetryError as e:
            out = ("MaxRetryError", type(e.reason).__name__)
        except Exception as e:
            return f"unexpected {type(e).__name__}: {e}"
    bodies = []
    # split the wire per request: requests were parsed by the fake server already
    for q in net.requests:
        hdrs = q["headers"]
        low = {k.strip().lower(): v.strip() for k, v in hdrs}
        raw = q["body"]
        if "chunked" in low.get("transfer-encoding", ""):
            try:
                _, payload = parse_body(raw, [("Transfer-Encoding", "chunked")])
            except ValueError as e:
                return f"attempt {len(bodies) + 1}: framing error {e}"
        else:
            payload = raw
        bodies.append((q["line"].split(" ")[0], payload))
    for i, (m, payload) in enumerate(bodies):
        after303 = "303" in history[:i]
        if after303:
            if payload:
                return f"attempt {i + 1} after a 303 still carries a body"
            continue
        if payload != want:
            return f"attempt {i + 1} carried {len(payload)} bytes, the first attempt's body has {len(want)} bytes (history {history}, outcome {out}) - a silently shortened or empty body"
    return None


def gen_resend(tier, seed):
    hist = [("ok",), ("error", "ok"), ("503", "ok"), ("307", "ok"), ("308", "ok"), ("303", "ok"), ("503", "503", "ok"), ("error", "503", "ok"), ("307", "503", "ok")]
    for kind in ("none", "bytes", "str", "bytearray", "file", "textfile", "notell", "list", "gen"):
        for size in ((0,) if kind == "none" else (0, 1, 10, BLOCK + 1)):
            for h in hist:
                for offset in ((0, 3) if kind == "file" and size >= 10 else (0,)):
                    yield (kind, size, list(h), offset)


CASES = [
    Case("wire/hostile-fields", gen_inject, check_inject,
         rule="method / URL / header name / header value built from 17 hostile fragments (CR, LF, CRLF, NUL, DEL, SP, HTAB, ':', non-ASCII, escapes, embedded complete request) and all pairs of them, via HTTPConnection.request, "
              "HTTPConnectionPool.urlopen and PoolManager.request; either nothing is written or the bytes are exactly one request whose lines are the requested ones",
         bound="single fragments x 6 field positions x 3 entry points + all fragment pairs", functions=["urllib3.connection.HTTPConnection.request", "putrequest", "putheader", "urllib3.connectionpool.HTTPConnectionPool.urlopen", "urllib3.util.url._encode_target"]),
    Case("wire/automatic-headers", gen_auto, check_auto,
         rule="every choice of <= 2 caller-supplied and <= 2 SKIP_HEADER-suppressed names among Host / Accept-Encoding / User-Agent (two casings) and X-Other",
         bound="<= 2 supplied x <= 2 suppressed", functions=["urllib3.connection.HTTPConnection.request", "putheader"]),
    Case("url/_encode_invalid_chars", gen_encoder, check_encoder,
         rule="every single character U+0000..U+00FF plus 3 wider code points and percent forms, and all pairs of 12 fragments, for the path / query / userinfo character sets: output only allowed characters or upper-case %HH, decodes to the same bytes",
         bound="1-2 symbols (the per-byte step of the encoder is memoryless apart from the 'all percent signs are escapes' flag)", functions=["urllib3.util.url._encode_invalid_chars"]),
]
C11_CASES = [
    Case("wire/body-framing", gen_framing, check_framing,
         rule="10 body kinds x sizes {0,1,2,blocksize-1,blocksize,blocksize+1(,70000)} x 6 methods x chunked flag x file start offsets: exactly one framing header, framed payload == body bytes",
         bound="the listed sizes", functions=["urllib3.connection.HTTPConnection.request", "urllib3.util.request.body_to_chunks"]),
    Case("wire/body-resend", gen_resend, check_resend,
         rule="9 body kinds x 4 sizes x 9 attempt histories (error, 503, 307, 308, 303 combinations) through the pool: every re-sent body is byte-identical, or the call fails with UnrewindableBodyError",
         bound="histories <= 3 attempts", functions=["urllib3.connectionpool.HTTPConnectionPool.urlopen", "urllib3.util.request.set_file_position", "rewind_body"]),
]
