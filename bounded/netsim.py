"""In-memory network for the bounded contract checks: the REAL urllib3 + http.client code runs down to the socket,
which is replaced by a scripted fake (no TLS).  A handler maps each parsed request to response bytes."""
import io, contextlib
from bounded import HarnessError


class Rx:
    """one shared, non-closing read side per socket (http.client calls makefile() once per response)"""

    def __init__(self):
        self.buf = bytearray()
        self.pos = 0
        self.eof = False

    def feed(self, b):
        self.buf += b

    def _take(self, n):
        data = bytes(self.buf[self.pos:self.pos + n]) if n is not None and n >= 0 else bytes(self.buf[self.pos:])
        self.pos += len(data)
        return data

    def read(self, n=-1):
        return self._take(None if n is None or n < 0 else n)

    def read1(self, n=-1):
        return self.read(n)

    def readinto(self, b):
        d = self._take(len(b))
        b[:len(d)] = d
        return len(d)

    def readline(self, limit=-1):
        i = self.buf.find(b"\n", self.pos)
        end = len(self.buf) if i < 0 else i + 1
        if limit is not None and limit >= 0:
            end = min(end, self.pos + limit)
        return self._take(end - self.pos)

    def peek(self, n=0):
        return bytes(self.buf[self.pos:])

    def flush(self):
        pass

    def close(self):
        pass

    @property
    def closed(self):
        return False

    def pending(self):
        return len(self.buf) - self.pos


class FakeSocket:
    def __init__(self, net, host, port):
        self.net, self.host, self.port = net, host, port
        self.rx = Rx()
        self.tx = bytearray()
        self.closed = False
        self.timeouts = []
        self.id = len(net.sockets)
        net.sockets.append(self)

    def settimeout(self, t):
        self.timeouts.append(t)

    def gettimeout(self):
        return self.timeouts[-1] if self.timeouts else None

    def setsockopt(self, *a):
        pass

    def sendall(self, data):
        if self.closed:
            raise OSError("send on closed fake socket")
        fault = self.net.fault("send", self)
        if fault:
            raise fault
        self.net.wire.append((self.id, bytes(data)))
        self.tx += data
        self._serve()

    send = sendall

    def _serve(self):
        while True:
            i = self.tx.find(b"\r\n\r\n")
            if i < 0:
                return
            head = bytes(self.tx[:i]).decode("latin-1")
            lines = head.split("\r\n")
            hdrs = [tuple(x.split(":", 1)) for x in lines[1:] if ":" in x]
            low = {k.strip().lower(): v.strip() for k, v in hdrs}
            body_start = i + 4
            if "chunked" in low.get("transfer-encoding", "").lower():
                j = self.tx.find(b"0\r\n\r\n", body_start)
                if j < 0:
                    return
                body, end = bytes(self.tx[body_start:j + 5]), j + 5
            else:
                n = int(low.get("content-length", "0") or 0)
                if len(self.tx) - body_start < n:
                    return
                body, end = bytes(self.tx[body_start:body_start + n]), body_start + n
            del self.tx[:end]
            req = {"sock": self.id, "host": self.host, "port": self.port, "line": lines[0], "headers": hdrs, "body": body}
            self.net.requests.append(req)
            resp = self.net.handler(req, self)
            if resp is not None:
                self.rx.feed(resp)

    def makefile(self, *a, **k):
        return self.rx

    def recv(self, n, flags=0):
        import socket as _s
        if flags & _s.MSG_PEEK:
            return bytes(self.rx.buf[self.rx.pos:self.rx.pos + n])
        return self.rx.read(n)

    def recv_into(self, b, *a):
        return self.rx.readinto(b)

    def close(self):
        self.closed = True

    def shutdown(self, *a):
        pass

    def fileno(self):
        return -1


class Net:
    def __init__(self, handler, faults=None):
        self.handler = handler
        self.sockets, self.requests, self.wire, self.dials = [], [], [], []
        self.faults = faults or {}

    def fault(self, where, sock):
        f = self.faults.get((where, len(self.requests)))
        return f() if f else None

    def create_connection(self, address, timeout=None, source_address=None, socket_options=None):
        host, port = address
        self.dials.append((host, port, timeout))
        f = self.faults.get(("connect", len(self.dials) - 1))
        if f:
            raise f()
        return FakeSocket(self, host, port)

    @contextlib.contextmanager
    def installed(self):
        import urllib3.util.connection as uc, urllib3.connection as conn
        try:
            old = (uc.create_connection, conn.wait_for_read)
        except AttributeError as e:
            raise HarnessError(f"patch points missing: {e}")
        uc.create_connection = self.create_connection
        conn.wait_for_read = lambda sock, timeout=None: bool(getattr(sock, "closed", False)) or (hasattr(sock, "rx") and sock.rx.pending() > 0)
        try:
            yield self
        finally:
            uc.create_connection, conn.wait_for_read = old


def response(status, headers=(), body=b"", reason="X"):
    h = list(headers)
    if not any(k.lower() in ("content-length", "transfer-encoding") for k, _ in h):
        h.append(("Content-Length", str(len(body))))
    return (f"HTTP/1.1 {status} {reason}\r\n" + "".join(f"{k}: {v}\r\n" for k, v in h) + "\r\n").encode("latin-1") + body
