"""Bounded stand-ins (DESIGN 2.11): the same contracts (pre/post as executable Python over the REAL
function), checked by exhaustive enumeration up to a stated bound.  Labelled bounded in the evidence,
never counted among discharged obligations.  Modules here run under /venv/bin/python."""


class HarnessError(Exception):
    """the harness itself could not be set up (never reported as a violation)"""


class Case:
    def __init__(self, name, gen, check, rule, bound, nontrivial=None, exhaustive=True, functions=()):
        self.name, self.gen, self.check, self.rule, self.bound = name, gen, check, rule, bound
        self.nontrivial = nontrivial or (lambda inp: True)
        self.exhaustive = exhaustive
        self.functions = list(functions)
