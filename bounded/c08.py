"""C08 bounded stand-ins: _dnsname_match builds a regex at run time from the SAN (split / re.escape / join) -
outside the VC generator's reach - so its contract ("agrees with the three-valued RFC 6125 reference") is checked
exhaustively over a label alphabet; match_hostname and assert_fingerprint are additionally checked end to end."""
import itertools, hashlib, random
from bounded import Case, HarnessError

try:
    from urllib3.util.ssl_match_hostname import _dnsname_match, match_hostname, CertificateError
    from urllib3.util.ssl_ import assert_fingerprint
    from urllib3.connection import _match_hostname
    from urllib3.exceptions import SSLError
except Exception as e:      # pragma: no cover
    raise HarnessError(f"cannot import: {e!r}")

LABELS = ["a", "b", "ab", "*", "a*", "*a", "a*b", "**", "xn--a", "xn--*", ""]


def names(maxlabels):
    for n in range(1, maxlabels + 1):
        for t in itertools.product(LABELS, repeat=n):
            yield ".".join(t)


def ref_dns(dn, host):
    """three-valued RFC 6125 reference: 'accept' / 'reject' / 'either'"""
    if not dn:
        return "reject"
    if "*" in host:
        return "either"          # not a real reference identity
    d = dn.split("."); h = host.split(".")
    left, rest = d[0], d[1:]
    if any("*" in x for x in rest):
        return "reject"          # wildcard outside the left-most label
    w = left.count("*")
    if w == 0:
        return "accept" if dn.lower() == host.lower() else "reject"
    if w > 1:
        return "reject"          # more than one wildcard
    if left == "*":
        ok = len(d) == len(h) and h[0] != "" and [x.lower() for x in rest] == [x.lower() for x in h[1:]]
        return "accept" if ok else "reject"
    # partial wildcard
    if left.lower().startswith("xn--") or h[0].lower().startswith("xn--"):
        return "reject"          # wildcards inside / against IDN A-labels
    if len(d) != len(h) or [x.lower() for x in rest] != [x.lower() for x in h[1:]]:
        return "reject"          # a wildcard never spans dots
    pre, _, suf = left.partition("*")
    hl = h[0].lower()
    if not (hl.startswith(pre.lower()) and hl.endswith(suf.lower()) and len(hl) >= len(pre) + len(suf)):
        return "reject"
    return "either"              # RFC 6125 permits but does not require partial-wildcard matching


def check_dns(inp):
    dn, host = inp
    try:
        got = bool(_dnsname_match(dn, host))
    except CertificateError:
        got = False
    want = ref_dns(dn, host)
    if want == "accept" and not got:
        return f"_dnsname_match({dn!r}, {host!r}) rejects a match RFC 6125 requires"
    if want == "reject" and got:
        return f"_dnsname_match({dn!r}, {host!r}) accepts a match RFC 6125 forbids"
    return None


def gen_dns(tier, seed):
    hmax = 3 if tier == "quick" else 4
    hosts = list(names(hmax))
    for dn in names(3):
        for h in hosts:
            yield (dn, h)
    for dn in ("A.B", "*.B", "a.b.", "*.b."):
        for h in ("a.b", "A.b", "a.B", "a.b."):
            yield (dn, h)


SAN_POOL = [("DNS", "a.b"), ("DNS", "*.b"), ("DNS", "A.B"), ("DNS", "1.2.3.4"), ("IP Address", "1.2.3.4"), ("IP Address", "::1"),
            ("DNS", "::1"), ("IP Address", "0:0:0:0:0:0:0:1"), ("DNS", "a*.b"), ("DNS", "xn--a.b"), ("DNS", "*.*.b"), ("DNS", "*"),
            ("email", "a.b"), ("IP Address", "1.2.3.5"), ("DNS", "*.2.3.4"), ("IP Address", "fe80::1"), ("DNS", "c.a.b"), ("URI", "a.b")]
HOSTS = ["a.b", "A.b", "c.b", "b", "c.a.b", "1.2.3.4", "::1", "0:0::1", "[::1]", "fe80::1%eth0", "[fe80::1%25eth0]", "xn--a.b", "ab.b", "x.2.3.4"]
SUBJECTS = [(), ((("commonName", "a.b"),),), ((("commonName", "*.b"),),), ((("organizationName", "x"),), (("commonName", "c.b"),))]


def ip_value(s):
    import ipaddress
    s = s.strip("[]")
    if "%" in s:
        s = s[: s.rfind("%")]
    try:
        return ipaddress.ip_address(s)
    except ValueError:
        return None


def check_match(inp):
    san, subject, host, cn = inp
    cert = {"subjectAltName": tuple(san), "subject": subject}
    try:
        _match_hostname(cert, host, cn)
        got = True
    except (CertificateError, ValueError):
        got = False
    hip = ip_value(host)
    votes = []
    relevant = [(k, v) for k, v in san if k in ("DNS", "IP Address")]
    for k, v in san:
        if k == "DNS":
            votes.append("reject" if hip is not None else ref_dns(v, host))
        elif k == "IP Address":
            vv = ip_value(v)
            votes.append("accept" if (hip is not None and vv is not None and vv == hip) else "reject")
    if not relevant and cn and hip is None:
        for rdn in subject:
            for k, v in rdn:
                if k == "commonName":
                    votes.append(ref_dns(v, host))
    if "accept" in votes:
        want = "accept"
    elif "either" in votes:
        want = "either"
    else:
        want = "reject"
    if want == "accept" and not got:
        return f"match_hostname rejects {host!r} although {san!r}/{subject!r} (cn={cn}) contains a required match"
    if want == "reject" and got:
        return f"match_hostname ACCEPTS {host!r} for {san!r}/{subject!r} (cn={cn}) although no entry may match"
    return None


def gen_match(tier, seed):
    k = 2 if tier == "quick" else 3
    for n in range(0, k + 1):
        for san in itertools.product(SAN_POOL, repeat=n):
            subs = SUBJECTS if n <= 1 else SUBJECTS[:2]
            for subject in subs:
                for host in HOSTS:
                    for cn in (False, True):
                        yield (list(san), subject, host, cn)


def pins_for(cert):
    out = []
    for algo in ("md5", "sha1", "sha256"):
        d = hashlib.new(algo, cert).hexdigest()
        out += [(d, True), (d.upper(), True), (":".join(d[i:i + 2] for i in range(0, len(d), 2)), True),
                (d[:10].upper() + ":" + d[10:], True), (d[:-1], False), (d[:-2], False), (d + "0", False), (d + "00", False), ("0" + d, False)]
        for pos in range(0, len(d), 3):
            c = d[pos]
            flipped = "%x" % (int(c, 16) ^ 1)
            out.append((d[:pos] + flipped + d[pos + 1:], False))
    # a digest of the wrong algorithm for the length must not be accepted
    out.append((hashlib.sha256(cert).hexdigest()[:40], False))
    out.append((hashlib.sha1(cert).hexdigest()[:32], False))
    out.append((hashlib.md5(cert).hexdigest() * 2, False))
    for n in (0, 1, 16, 31, 33, 39, 41, 63, 65, 128):
        out.append(("a" * n, False))
    return out


def gen_fp(tier, seed):
    rnd = random.Random(seed)
    certs = [b"", b"abc", bytes(range(256))] + [bytes(rnd.randrange(256) for _ in range(rnd.randrange(1, 80))) for _ in range(3 if tier == "quick" else 30)]
    for c in certs:
        for pin, ok in pins_for(c):
            yield (c.hex(), pin, ok)
    yield (None, "a" * 64, False)


def check_fp(inp):
    cert_hex, pin, ok = inp
    cert = None if cert_hex is None else bytes.fromhex(cert_hex)
    try:
        assert_fingerprint(cert, pin)
        got = True
    except (SSLError, ValueError):
        got = False
    if got != ok:
        return f"assert_fingerprint(cert[{0 if cert is None else len(cert)} bytes], {pin!r}) {'accepts' if got else 'rejects'}; the statement demands {'accept' if ok else 'reject'}"
    return None


CASES = [
    Case("_dnsname_match/label-alphabet", gen_dns, check_dns,
         rule="every SAN name of 1-3 labels x every host name of 1-3 (quick) / 1-4 (thorough) labels over {a,b,ab,*,a*,*a,a*b,**,xn--a,xn--*,''} against a three-valued RFC 6125 reference",
         bound="SAN <= 3 labels, host <= 3/4 labels", functions=["urllib3.util.ssl_match_hostname._dnsname_match"]),
    Case("match_hostname/san-lists", gen_match, check_match,
         rule="every SAN list of <= 2 (quick) / <= 3 (thorough) entries from an 18-entry pool x 4 subjects x 14 hosts (DNS, IPv4/IPv6 literal, bracketed, zoned, non-canonical) x commonName on/off, through connection._match_hostname",
         bound="<= 2/3 SAN entries", functions=["urllib3.connection._match_hostname", "urllib3.util.ssl_match_hostname.match_hostname", "urllib3.util.ssl_match_hostname._ipaddress_match"]),
    Case("assert_fingerprint/pins", gen_fp, check_fp,
         rule="pins derived from the true md5/sha1/sha256 digests by case change, colon insertion, nibble flips, truncation, extension, wrong-algorithm prefixes, for fixed + seeded random certificates",
         bound="6 (quick) / 33 (thorough) certificates x ~75 pins", exhaustive=False, functions=["urllib3.util.ssl_.assert_fingerprint"]),
]
