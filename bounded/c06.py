"""C06 bounded stand-in: credentials are never forwarded to another origin - the strip loop for all spellings and
containers, through the real PoolManager / ProxyManager on an in-memory network."""
import itertools, warnings
from bounded import Case, HarnessError
from bounded.netsim import Net, response

try:
    from urllib3 import PoolManager, ProxyManager
    from urllib3._collections import HTTPHeaderDict
    from urllib3.util.retry import Retry
except Exception as e:      # pragma: no cover
    raise HarnessError(repr(e))
warnings.simplefilter("ignore")

SPELLINGS = [("Authorization", "authorization"), ("AUTHORIZATION", "authorization"), ("authorization", "authorization"), ("aUtHoRiZaTiOn", "authorization"),
             ("Cookie", "cookie"), ("COOKIE", "cookie"), ("Proxy-Authorization", "proxy-authorization"), ("proxy-authorization", "proxy-authorization")]
CUSTOM = [("X-Api-Secret", "x-api-secret"), ("x-API-secret", "x-api-secret")]
# (first url, Location values per hop) ; origin = (scheme, host, port)
CHAINS = [("http://a.test/", ["http://b.test/x"]), ("http://a.test/", ["http://a.test:8080/x"]), ("http://a.test/", ["//b.test/x"]),
          ("http://a.test/", ["http://a.test/same", "http://b.test/x"]), ("http://a.test/", ["http://b.test/x", "http://a.test/back"]),
          ("http://a.test/", ["/same"]), ("http://a.test:80/", ["http://A.TEST/same"]), ("http://a.test/", ["http://a.test.:80/x"]),
          ("http://a.test/", ["http://b.test/x", "http://c.test/y"])]


def origin_of(url):
    from urllib.parse import urlsplit
    u = urlsplit(url)
    return (u.scheme, (u.hostname or "").lower(), u.port or {"http": 80, "https": 443}[u.scheme])


def gen(tier, seed):
    for first, locs in CHAINS:
        for container in ("dict", "HTTPHeaderDict"):
            for placement in ("default", "request-custom", "manager-custom", "request-empty"):
                for proxy in (None, "http://px.test:3128"):
                    names = SPELLINGS + (CUSTOM if "custom" in placement else [])
                    for name, low in names:
                        yield (first, locs, container, placement, proxy, name, low)
    # D15: redirect to the forwarding proxy's own host:port
    for name, low in SPELLINGS[:2]:
        yield ("http://a.test/", ["http://px.test:3128/x"], "dict", "default", "http://px.test:3128", name, low)


def check(inp):
    first, locs, container, placement, proxy, name, low = inp
    from urllib.parse import urljoin
    urls = [first]
    for l in locs:
        urls.append(urljoin(urls[-1], l))
    def handler(req, sock):
        i = len(net.requests) - 1
        if i < len(locs):
            return response(302, [("Location", locs[i])])
        return response(200, body=b"ok")
    net = Net(handler)
    strip = {"authorization", "cookie", "proxy-authorization"}
    with net.installed():
        mkw, kw = {}, {}
        if placement == "request-custom":
            kw["retries"] = Retry(remove_headers_on_redirect=["X-API-Secret"]); strip = {"x-api-secret"}
        elif placement == "manager-custom":
            mkw["retries"] = Retry(remove_headers_on_redirect=["X-API-Secret"]); strip = {"x-api-secret"}
        elif placement == "request-empty":
            kw["retries"] = Retry(remove_headers_on_redirect=[]); strip = set()
        m = ProxyManager(proxy, **mkw) if proxy else PoolManager(**mkw)
        hd = {name: "s3cr3t", "X-Other": "1"}
        caller = HTTPHeaderDict(hd) if container == "HTTPHeaderDict" else dict(hd)
        before = list(caller.items())
        try:
            r = m.urlopen("GET", first, headers=caller, **kw)
        except Exception as e:
            return f"unexpected {type(e).__name__}: {e}"
    if list(caller.items()) != before:
        return f"the caller's header mapping was modified: {list(caller.items())}"
    if len(net.requests) != len(urls):
        return f"{len(net.requests)} requests for a chain of {len(urls)}"
    o0 = origin_of(urls[0])
    left = False
    for q, u in zip(net.requests, urls):
        if origin_of(u) != o0:
            left = True
        sent = {k.strip().lower() for k, _ in q["headers"]}
        if left and low in strip and low in sent:
            return f"{name} forwarded to {u} (origin {origin_of(u)} != {o0}) in request {q['line']!r}"
        if low not in strip and low not in sent:
            return f"{name} is not named by the policy but was dropped on the way to {u}"
        if "x-other" not in sent:
            return f"unrelated header lost on the way to {u}"
    return None


CASES = [Case("PoolManager/credential-stripping", gen, check,
              rule="9 redirect chains (cross-host, cross-port, scheme-relative, same-origin first, A->B->A, trailing-dot/upper-case same origin) x dict/HTTPHeaderDict x "
                   "default/request-level/manager-level/empty strip sets x direct/forwarding proxy x 8-10 header spellings",
              bound="chains <= 3 hops, the listed spellings", functions=["urllib3.poolmanager.PoolManager.urlopen", "urllib3.connectionpool.HTTPConnectionPool.is_same_host"])]
