"""C05 bounded stand-in: scripted redirect chains through the real PoolManager / HTTPConnectionPool / http.client on an
in-memory network, compared with a reference model of 'followed only as far as the effective policy allows'."""
import itertools, warnings
from bounded import Case, HarnessError
from bounded.netsim import Net, response

try:
    import urllib3
    from urllib3 import PoolManager
    from urllib3.util.retry import Retry
    from urllib3.exceptions import MaxRetryError
except Exception as e:      # pragma: no cover
    raise HarnessError(repr(e))
warnings.simplefilter("ignore")

POLICIES = ["none", "False", "0", "1", "2", "R(redirect=0)", "R(redirect=1)", "R(redirect=1,ror=False)", "R(total=1)", "R(redirect=2,total=1)",
            "R(redirect=0,ror=False)", "R(total=0,ror=False)"]


def mk(p):
    if p == "none": return None
    if p == "False": return False
    if p in "012": return int(p)
    kw = {}
    inner = p[2:-1]
    for part in inner.split(","):
        k, v = part.split("=")
        kw["raise_on_redirect" if k == "ror" else k] = (v == "True") if v in ("True", "False") else int(v)
    return Retry(**kw)


def budgets(pol):
    """(total, redirect, raise_on_redirect, disabled) of the effective policy"""
    if pol is None:
        return 3, None, True, False
    if pol is False:
        return None, None, False, True
    if isinstance(pol, int):
        return pol, None, True, False
    return pol.total, pol.redirect, pol.raise_on_redirect, False


def reference(chain, status, method, has_body, redirect_flag, eff):
    """expected request sequence [(host, method, has_body)] and outcome ('status', n) / ('MaxRetryError',)"""
    total, red, ror, disabled = budgets(eff)
    seq = []
    m, b = method, has_body
    for i, host in enumerate(chain):
        seq.append((host, m, b))
        last = i == len(chain) - 1
        if last:
            return seq, ("status", 200)
        # a 3xx answer
        if not redirect_flag or disabled:
            return seq, ("status", status)
        if total is not None: total -= 1
        if red is not None: red -= 1
        if (total is not None and total < 0) or (red is not None and red < 0):
            return seq, (("MaxRetryError",) if ror else ("status", status))
        if status == 303:
            m, b = "GET", False
    return seq, ("status", 200)


def gen(tier, seed):
    chains = [["a.test"], ["a.test", "b.test"], ["a.test", "b.test", "c.test"], ["a.test", "a.test", "b.test"], ["a.test", "b.test", "a.test", "c.test"]]
    for chain in chains:
        for status in (301, 302, 303, 307, 308):
            for method, has_body in (("GET", False), ("POST", True)):
                for redirect_flag in (True, False):
                    for req_pol in POLICIES:
                        for mgr_pol in (POLICIES if (tier != "quick" or req_pol == "none") else ["none", "False", "R(redirect=0)"]):
                            yield (chain, status, method, has_body, redirect_flag, req_pol, mgr_pol)


def check(inp):
    chain, status, method, has_body, redirect_flag, req_pol, mgr_pol = inp
    step = {"i": 0}
    def handler(req, sock):
        i = len(net.requests) - 1
        if i < len(chain) - 1:
            return response(status, [("Location", f"http://{chain[i + 1]}/p{i + 1}")])
        return response(200, body=b"ok")
    net = Net(handler)
    with net.installed():
        mkw = {} if mgr_pol == "none" else {"retries": mk(mgr_pol)}
        m = PoolManager(**mkw)
        kw = {} if req_pol == "none" else {"retries": mk(req_pol)}
        if has_body:
            kw["body"] = b"payload"; kw["headers"] = {"Content-Type": "text/plain", "X-Keep": "1"}
        try:
            r = m.urlopen(method, f"http://{chain[0]}/p0", redirect=redirect_flag, **kw)
            out = ("status", r.status)
        except MaxRetryError:
            out = ("MaxRetryError",)
        except Exception as e:
            out = ("exception", type(e).__name__)
    eff = mk(req_pol) if req_pol != "none" else (mk(mgr_pol) if mgr_pol != "none" else None)
    want_seq, want_out = reference(chain, status, method, has_body, redirect_flag, eff)
    got_seq = [(q["host"], q["line"].split(" ")[0], bool(q["body"])) for q in net.requests]
    if got_seq != want_seq or out != want_out:
        return f"requests {got_seq} outcome {out}; the effective policy ({req_pol if req_pol != 'none' else 'manager:' + mgr_pol}) allows {want_seq} outcome {want_out}"
    for q, (h, mm, bb) in zip(net.requests[1:], want_seq[1:]):
        names = [k.strip().lower() for k, _ in q["headers"]]
        if status == 303 and "content-type" in names:
            return f"303 follow-up still carries Content-Type: {q['headers']}"
        if status != 303 and has_body and "x-keep" not in names:
            return f"{status} follow-up lost a caller header: {q['headers']}"
    return None


CASES = [Case("PoolManager/redirect-chains", gen, check,
              rule="chains of 1-4 hosts x status {301,302,303,307,308} x GET / POST+body x redirect flag x request-level policy x manager-level policy "
                   "(12 spellings each: none, False, ints, Retry(redirect/total/raise_on_redirect)) against a reference model of the effective policy",
              bound="chains <= 4 hops; 12x3 (quick) / 12x12 (thorough) policy placements", functions=["urllib3.poolmanager.PoolManager.urlopen", "urllib3.connectionpool.HTTPConnectionPool.urlopen", "urllib3.util.retry.Retry.increment"])]
