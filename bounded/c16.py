"""C16 bounded stand-in: HTTPHeaderDict against a reference case-insensitive, order-preserving multimap:
every operation sequence up to a stated length over a small name/value alphabet, plus random long ones incl. copies
mutated afterwards."""
import itertools, random
from bounded import Case, HarnessError

try:
    from urllib3._collections import HTTPHeaderDict
except Exception as e:      # pragma: no cover
    raise HarnessError(repr(e))

NAMES = ["A", "a", "B", "b", "Set-Cookie", "set-cookie"]
VALUES = ["1", "2", "x, y", ""]


class Ref:
    """entries: list of [lname, display, [values]] in first-insertion order"""

    def __init__(self, entries=None):
        self.e = [[l, d, list(v)] for l, d, v in (entries or [])]

    def _find(self, name):
        for x in self.e:
            if x[0] == name.lower():
                return x
        return None

    def set(self, name, val):
        x = self._find(name)
        if x:
            x[1], x[2] = name, [val]
        else:
            self.e.append([name.lower(), name, [val]])

    def add(self, name, val, combine=False):
        x = self._find(name)
        if not x:
            self.e.append([name.lower(), name, [val]])
        elif combine:
            x[2][-1] = x[2][-1] + ", " + val
        else:
            x[2].append(val)

    def delete(self, name):
        x = self._find(name)
        if not x:
            raise KeyError(name)
        self.e.remove(x)

    def get(self, name):
        x = self._find(name)
        if not x:
            raise KeyError(name)
        return ", ".join(x[2])

    def getlist(self, name):
        x = self._find(name)
        return list(x[2]) if x else []

    def copy(self):
        return Ref(self.e)

    def items(self):
        return [(d, v) for _, d, vs in self.e for v in vs]

    def merged(self):
        return [(d, ", ".join(vs)) for _, d, vs in self.e]

    def names(self):
        return [d for _, d, _ in self.e]


def observe(h):
    out = {"len": len(h), "iter": list(h), "items": list(h.items()), "merged": list(h.itermerged())}
    for n in NAMES + ["zz"]:
        out["in:" + n] = n in h
        out["getlist:" + n] = h.getlist(n)
        try:
            out["get:" + n] = h[n]
        except KeyError:
            out["get:" + n] = KeyError
    return out


def observe_ref(r):
    out = {"len": len(r.e), "iter": r.names(), "items": r.items(), "merged": r.merged()}
    for n in NAMES + ["zz"]:
        out["in:" + n] = r._find(n) is not None
        out["getlist:" + n] = r.getlist(n)
        try:
            out["get:" + n] = r.get(n)
        except KeyError:
            out["get:" + n] = KeyError
    return out


def ops_alphabet(names, values):
    al = []
    for n in names:
        al += [("del", n), ("pop", n), ("discard", n), ("setdefault", n, values[0])]
        for v in values:
            al += [("set", n, v), ("add", n, v), ("addc", n, v)]
    al += [("extend_pairs",), ("extend_dict",), ("extend_hd",), ("update_kw",), ("ior",), ("or",), ("copy",), ("ctor",), ("clear_via_del",)]
    return al


def apply(h, r, op):
    k = op[0]
    if k == "set":
        h[op[1]] = op[2]; r.set(op[1], op[2])
    elif k == "add":
        h.add(op[1], op[2]); r.add(op[1], op[2])
    elif k == "addc":
        h.add(op[1], op[2], combine=True); r.add(op[1], op[2], combine=True)
    elif k == "del":
        try:
            del h[op[1]]; got = None
        except KeyError:
            got = KeyError
        try:
            r.delete(op[1]); want = None
        except KeyError:
            want = KeyError
        if got != want:
            return h, r, f"del {op[1]}: {got} vs reference {want}"
    elif k == "pop":
        got = h.pop(op[1], "DEF")
        want = r.get(op[1]) if r._find(op[1]) else "DEF"
        if r._find(op[1]):
            r.delete(op[1])
        if got != want:
            return h, r, f"pop {op[1]}: {got!r} vs reference {want!r}"
    elif k == "discard":
        h.discard(op[1])
        if r._find(op[1]):
            r.delete(op[1])
    elif k == "setdefault":
        got = h.setdefault(op[1], op[2])
        if not r._find(op[1]):
            r.set(op[1], op[2])
        want = r.get(op[1])
        if got != want:
            return h, r, f"setdefault {op[1]}: {got!r} vs reference {want!r}"
    elif k == "extend_pairs":
        h.extend([("B", "p1"), ("b", "p2")]); r.add("B", "p1"); r.add("b", "p2")
    elif k == "extend_dict":
        h.extend({"A": "d1"}); r.add("A", "d1")
    elif k == "extend_hd":
        o = HTTPHeaderDict(); o.add("Set-Cookie", "c1"); o.add("set-cookie", "c2")
        h.extend(o); r.add("Set-Cookie", "c1"); r.add("set-cookie", "c2")
    elif k == "update_kw":
        h.update({"a": "u1"}); r.set("a", "u1")
    elif k == "ior":
        h |= {"b": "i1"}; r.add("b", "i1")
    elif k == "or":
        src_before = observe(h)
        h2 = h | {"A": "o1"}
        if observe(h) != src_before:
            return h, r, "`|` modified its left operand"
        r2 = r.copy(); r2.add("A", "o1")
        h2.add("B", "later")          # mutate the union: the source must not change
        if observe(h) != src_before:
            return h, r, "mutating the result of `|` changed the source"
        r2.add("B", "later")
        return h2, r2, None
    elif k in ("copy", "ctor"):
        src_before = observe(h)
        h2 = h.copy() if k == "copy" else HTTPHeaderDict(h)
        r2 = r.copy()
        h.add("A", "after-copy"); r.add("A", "after-copy")       # mutate the source: the copy must not change
        if observe(h2) != src_before:
            return h, r, f"mutating the source changed its {k}"
        h2.add("b", "copy-side"); r2.add("b", "copy-side")
        if observe(h) != observe_ref(r):
            return h, r, f"mutating the {k} changed the source"
        return h2, r2, None
    elif k == "clear_via_del":
        for n in list(h):
            del h[n]
        r.e = []
    return h, r, None


def check(inp):
    seq = inp
    h, r = HTTPHeaderDict(), Ref()
    for i, op in enumerate(seq):
        h, r, msg = apply(h, r, op)
        if msg:
            return f"step {i} {op}: {msg} (sequence {seq})"
        a, b = observe(h), observe_ref(r)
        if a != b:
            k = next(k for k in a if a[k] != b[k])
            return f"step {i} {op}: {k} = {a[k]!r}, reference multimap {b[k]!r} (sequence {seq})"
        if (h == HTTPHeaderDict(r.items())) is not True:
            return f"step {i} {op}: not equal to a header dict rebuilt from its own items"
    return None


def gen(tier, seed):
    small = ops_alphabet(["A", "a", "B"], ["1", "x, y"])
    maxlen = 3 if tier == "quick" else 4
    for n in range(1, maxlen + 1):
        for seq in itertools.product(small, repeat=n):
            yield seq
    full = ops_alphabet(NAMES, VALUES)
    rnd = random.Random(seed)
    for _ in range(3000 if tier == "quick" else 30000):
        yield tuple(rnd.choice(full) for _ in range(rnd.randrange(4, 31)))


CASES = [Case("HTTPHeaderDict/reference-multimap", gen, check,
              rule="every operation sequence of length <= 3 (quick) / 4 (thorough) over 27+9 operations on names {A,a,B} and values {'1','x, y'} (set/add/add-combine/del/pop/discard/setdefault/extend with pairs, dict, header dict/update/|=/|/copy/constructor copy with "
                   "both sides mutated afterwards), plus seeded random sequences of length 4-30 over the full alphabet {A,a,B,b,Set-Cookie,set-cookie} x {'1','2','x, y',''}; after every step all observations (len, iteration, items, merged items, membership, "
                   "lookup and getlist under every casing, equality) must equal the reference multimap's",
              bound="exhaustive length <= 3/4 over 36 operations; 3e3 / 3e4 random sequences up to length 30",
              functions=["urllib3._collections.HTTPHeaderDict.*"])]
