#!/usr/bin/env python3
"""usage: seed_store.py <Cxx> <m1|m2> <detected: yes|no|undecided> <checks that catch it / note>"""
import sys, os, json, shutil, re
pid, m, det, note = sys.argv[1], sys.argv[2], sys.argv[3], sys.argv[4]
src = f"/tmp/mut/{pid}/_out/{m}"
dst = f"/verif/seeded/{pid}-{m}"
os.makedirs(dst, exist_ok=True)
shutil.copy(f"{src}/patch.diff", f"{dst}/patch.diff")
shutil.copy(f"{src}/demo.py", f"{dst}/demo.py")
notes = open(f"{src}/notes.md").read() if os.path.exists(f"{src}/notes.md") else ""
conf = open(f"{src}/confirm.txt").read() if os.path.exists(f"{src}/confirm.txt") else ""
pinned = os.popen(f"python3 /verif/tools/pinned_check.py {src}/outcomes.txt 2>/dev/null | head -1").read().strip() if os.path.exists(f"{src}/outcomes.txt") else "n/a"
files = sorted(set(re.findall(r"^\+\+\+ b/(\S+)", open(f"{src}/patch.diff").read(), re.M)))
meta = {"property": pid, "files": files,
        "needs_to_manifest": (re.search(r"(?is)(trigger|needs|manifest)[^\n]*\n(.{0,600})", notes) or [None, None, notes[:600]])[2].strip(),
        "what_i_ran": ["tools/seed_confirm.sh (scratch worktree): demo on pristine -> exit 0, demo with patch -> exit 1, full test suite with -p no:memray compared with the pristine run",
                       f"pinned-suite comparison: {pinned} (same as the pristine run)",
                       f"tools/seed_check.sh {pid} patch.diff (check run against a scratch copy of /repo/src with the patch)"],
        "confirm_head": conf.split("\n")[:4],
        "detected_by_my_checks": det, "detection_note": note, "author": "independent sub-agent given only the property text and a scratch worktree"}
json.dump(meta, open(f"{dst}/meta.json", "w"), indent=1)
print("stored", dst)
