#!/bin/bash
# run every stored seeded change against its property's quick check (scratch copies of /repo/src); 4 in parallel
cd /verif
mkdir -p .tmp/seeds
ls seeded | xargs -P ${P:-4} -I{} sh -c 'id={}; prop=${id%%-*}; N=3 T=1500 tools/seed_check.sh $prop /verif/seeded/$id/patch.diff quick > .tmp/seeds/$id.out 2>&1'
for id in $(ls seeded); do
  v=$(grep -c '^VIOLATION' .tmp/seeds/$id.out)
  echo "$id violations=$v $(grep -E '^exit=' .tmp/seeds/$id.out) $(grep -m1 -E '^VIOLATION' .tmp/seeds/$id.out | cut -c1-140)"
done
