#!/bin/sh
# run every claimed check (quick) on the unchanged tree; prints one line per property
cd /verif
for p in C01 C02 C03 C04 C05 C06 C07 C08 C09 C10 C11 C12 C13 C14 C15 C16 C17 C18 C19 C20; do
  s=$(date +%s)
  timeout -k 5 1500 ./check $p ${1:-quick} > .tmp/sweep_$p.log 2>&1; rc=$?
  e=$(date +%s)
  echo "$p exit=$rc $((e-s))s $(grep -c '^KNOWN-FINDING' .tmp/sweep_$p.log) known | $(grep 'obligations discharged' .tmp/sweep_$p.log | cut -c1-110)"
done
