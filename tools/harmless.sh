#!/bin/sh
# Harmless refactorings (renamed locals, reordered independent statements): every check must stay green (exit 0).
# usage: tools/harmless.sh            (runs against scratch copies; evidence files are not touched)
run() {  # prop file sed-expr label
  D=$(mktemp -d /tmp/pyvc_harmless.XXXXXX); cp -r /repo/src "$D/src"
  sed -i "$3" "$D/src/$2"
  if diff -q /repo/src/$2 "$D/src/$2" >/dev/null; then echo "$1 [$4]: sed did not change anything"; rm -rf "$D"; return; fi
  /venv/bin/python -c "import ast,sys; ast.parse(open('$D/src/$2').read())" || { echo "$1 [$4]: syntax error"; rm -rf "$D"; return; }
  cd /verif && PYVC_SRC="$D/src" timeout 1500 ./check "$1" quick > "$D/out.txt" 2>&1; rc=$?
  echo "$1 [$4]: exit=$rc $(grep -E 'VIOLATION|UNDECIDED|ERROR' "$D/out.txt" | head -2 | cut -c1-160)"
  rm -rf "$D"
}
run C01 urllib3/connectionpool.py 's/\brelease_this_conn\b/should_release_conn/g' "rename local release_this_conn"
run C04 urllib3/util/retry.py 's/\bstatus_count\b/n_status/g; s/\bredirect_location\b/redir_loc/g' "rename locals in Retry.increment"
run C19 urllib3/util/timeout.py 's/\bcurrent_time\b/now_ts/g' "rename local in Timeout"
run C18 urllib3/poolmanager.py 's/\bbase_pool_kwargs\b/merged_kw/g' "rename local in _merge_pool_kwargs"
run C14 urllib3/util/url.py 's/\bhost_port\b/hostport/g; s/\bnormalize_uri\b/do_normalize/g' "rename locals in parse_url"
run C13 urllib3/response.py 's/\bfp_closed\b/fp_is_closed/g' "rename local in _raw_read"
run C12 urllib3/response.py 's/\breturned_chunk\b/piece/g' "rename local in _handle_chunk"
run C08 urllib3/util/ssl_match_hostname.py 's/\bdnsnames\b/names_seen/g' "rename local in match_hostname"
run C05 urllib3/poolmanager.py 's/        kw\["assert_same_host"\] = False\n        kw\["redirect"\] = False/X/' "noop"
run C17 urllib3/_collections.py 's/\bevicted_item\b/evicted/g' "rename local in RecentlyUsedContainer.__setitem__"
run C20 urllib3/fields.py 's/# percent encode/# percent-encode/' "comment edit"
run C09 urllib3/util/proxy.py 's/# Otherwise always use a tunnel./# default: tunnel/' "comment edit in connection_requires_http_tunnel"
# refactorings against the contracts added in the last stretch (all observed exit 0 on 2026-09-29)
run C11 urllib3/connection.py 's/chunks_and_cl/cc_/g' "rename local in HTTPConnection.request"
run C07 urllib3/connection.py 's/\bnormalized\b/norm_/g' "rename local in _ssl_wrap_socket_and_match_hostname"
run C02 urllib3/connectionpool.py 's/conn = self.pool.get(block=self.block, timeout=timeout)/conn = self.pool.get(timeout=timeout, block=self.block)/' "reorder keyword arguments in _get_conn"
