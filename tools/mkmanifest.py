#!/usr/bin/env python3-vt
"""Regenerate MANIFEST.json from props.py (claimed properties) — everything else is not_applicable."""
import json, os, sys
VERIF = os.path.dirname(os.path.dirname(os.path.abspath(__file__)))
sys.path.insert(0, VERIF)
from props import PROPS, NOT_APPLICABLE_REASON
props = [json.loads(l) for l in open(os.path.join(VERIF, "properties.jsonl"))]
checks, na = [], []
for p in props:
    pid = p["id"]
    cfg = PROPS.get(pid)
    if cfg is None or not cfg.get("claimed", True):
        na.append({"property_id": pid, "reason": NOT_APPLICABLE_REASON.get(pid, "check not built yet (build in progress; DESIGN.md section 5 has the planned contracts)")})
        continue
    checks.append({
        "property_id": pid,
        "quick_cmd": f"./check {pid} quick",
        "thorough_cmd": f"./check {pid} thorough",
        "evidence_file": f"/verif/evidence/{pid}.json",
        "replay_cmd_template": f"./check {pid} --replay {{path}}",
        "engine": "pyvc",
        "level_claimed": {"category": cfg.get("level", "proof"), "text": cfg["level_text"], "design_ref": f"DESIGN.md section 5 ({pid})"},
        "level_note": cfg["level_note"],
        "technique": cfg.get("technique", "contract-based deductive verification: VCs generated from the real function ASTs against sidecar contracts, discharged by z3/cvc5"),
    })
m = {
    "version": 1,
    "setup_cmd": "./setup.sh",
    "hooks": {"guard": "URLLIB3_VERIF_HOOKS",
              "enable": "none (no source hooks: contracts live in sidecar files under /verif/contracts; /repo is only parsed and imported)",
              "baseline_off_cmd": "cd /repo && /venv/bin/python -m pytest -ra -q -p no:cacheprovider --timeout=900 --continue-on-collection-errors",
              "source_commits": [], "add_only": True},
    "engines": [{"name": "pyvc", "path": "pyvc/", "serves_properties": [c["property_id"] for c in checks],
                 "kind_free_text": "AST->SMT verification-condition generator over the real urllib3 source (path-forking symbolic execution per function against sidecar contracts; callers use callee contracts), z3 + cvc5 back ends; counter-models replayed natively on the real function"}],
    "checks": checks,
    "notes": "see DESIGN.md; properties move from not_applicable to checks as their contracts come under proof",
    "not_applicable": na,
}
json.dump(m, open(os.path.join(VERIF, "MANIFEST.json"), "w"), indent=1)
import jsonschema
jsonschema.validate(m, json.load(open("/root/.vp/MANIFEST.schema.json")))
print("MANIFEST.json:", len(checks), "claimed,", len(na), "not_applicable")
