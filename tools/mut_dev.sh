#!/bin/bash
# usage: tools/mut_dev.sh <file-relative-to-src> <python-old-string> <python-new-string> <contract modules csv> <function suffixes...>
# one textual edit on a scratch copy of /repo/src, then the dev runner on the named functions
F=$1; OLD=$2; NEW=$3; MODS=$4; shift 4
D=$(mktemp -d /tmp/pyvc_mut.XXXXXX)
cp -r /repo/src "$D/src"
python3 - "$D/src/$F" "$OLD" "$NEW" <<'PY'
import sys
p, old, new = sys.argv[1:4]
s = open(p).read()
assert s.count(old) >= 1, "pattern not found"
open(p, "w").write(s.replace(old, new, 1))
PY
[ $? -eq 0 ] || { rm -rf "$D"; exit 2; }
PYVC_SRC="$D/src" N=${N:-12} /verif/tools/dev.sh ${T:-200} "$MODS" "$@"
rm -rf "$D"
