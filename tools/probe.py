#!/usr/bin/env python3-vt
"""Developer probe: how far does the executor get on a function with a trivial contract?
usage: python3-vt tools/probe.py [--contracts a,b] qualname ..."""
import sys, os, glob, importlib, time
VERIF = os.path.dirname(os.path.dirname(os.path.abspath(__file__)))
sys.path.insert(0, VERIF)
from pyvc.world import World
from pyvc.engine import Interp
from pyvc import dsl, verify


def main():
    args = sys.argv[1:]
    mods = []
    if args and args[0] == "--contracts":
        mods = args[1].split(","); args = args[2:]
    w = World()
    for p in glob.glob(os.path.join(VERIF, "specs", "*.py")):
        w.load_specs(p)
    dsl.REG.world = w
    for m in mods:
        importlib.import_module("contracts." + m)
    for q in args:
        if q.endswith("*"):
            qs = [x for x in w.funcs if x.startswith(q[:-1])]
        else:
            qs = [q]
        for q in qs:
            if q not in dsl.REG.contracts:
                c = dsl.contract(q, prop="P")
                c.raises_any = True
                c.ensures("True", "trivial")
            I = Interp(w, dsl.REG)
            t0 = time.time()
            try:
                r = verify.verify_function(I, q, "P")
                print(f"{q}: {r.status} {r.reason} paths={r.paths} exits={r.exits} ({time.time()-t0:.1f}s)")
            except Exception as e:
                import traceback
                print(f"{q}: CRASH {type(e).__name__}: {e}")
                traceback.print_exc(limit=4)


main()
