#!/bin/bash
# usage: tools/dev.sh <seconds> <dev.py args...>   -- runs dev.py in its own session with a hard kill, prints head (H lines) and tail
T=$1; shift
OUT=$(mktemp /tmp/devout.XXXXXX)
cd /verif
DEV_TIMEOUT=$((T-5)) setsid python3-vt dev.py "$@" > "$OUT" 2>&1 &
PID=$!
( sleep "$T"; kill -9 -- -"$PID" 2>/dev/null ) &
W=$!
wait "$PID" 2>/dev/null
kill "$W" 2>/dev/null
pkill -9 -s "$PID" 2>/dev/null
grep -v "site-packages" "$OUT" > "$OUT.f"
if [ -n "$H" ]; then head -$H "$OUT.f" | cut -c1-${C:-600}; echo ...; fi
tail -${N:-25} "$OUT.f" | cut -c1-${C:-600}
rm -f "$OUT" "$OUT.f"
