#!/bin/sh
# usage: tools/mutate_try.sh <Cxx> <sed-expr> <file-relative-to-src>   -- run a check against a scratch copy of /repo/src with one edit
set -e
D=$(mktemp -d /tmp/pyvc_mut.XXXXXX)
cp -r /repo/src "$D/src"
sed -i "$2" "$D/src/$3"
diff -r /repo/src "$D/src" | head -20 || true
cd /verif && PYVC_SRC="$D/src" timeout ${T:-900} ./check "$1" quick | tail -${N:-8}; echo "exit=$?"
rm -rf "$D"
