#!/usr/bin/env python3
"""usage: pinned_check.py <outcomes.txt>  -- do all pinned (BASELINE stable_pass) tests pass in this run?"""
import json, sys, re
base = set(json.load(open("/root/.vp/BASELINE.json"))["stable_pass"])
passed = set()
for l in open(sys.argv[1]):
    if not l.startswith("PASSED "):
        continue
    nid = l.split(" ", 1)[1].strip()
    parts = nid.split("::")
    mod = parts[0][:-3].replace("/", ".")
    if len(parts) == 3:
        key = f"{mod}.{parts[1]}::{parts[2]}"
    else:
        key = f"{mod}::{parts[-1]}"
    passed.add(key)
missing = sorted(b for b in base if b not in passed and b != "::")
print(f"pinned tests: {len(base)}; passing in this run: {len(base) - len(missing)}; not passing: {len(missing)}")
for m in missing[:10]:
    print("   ", m)
