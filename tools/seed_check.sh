#!/bin/sh
# usage: tools/seed_check.sh <Cxx> <patch.diff> [tier]  -- run the check against a scratch copy of /repo/src with the patch applied
D=$(mktemp -d /tmp/pyvc_seed.XXXXXX)
mkdir -p "$D"; cp -r /repo/src "$D/src"
(cd "$D" && patch -s -p1 < "$2") || { echo "patch failed"; rm -rf "$D"; exit 2; }
cd /verif && PYVC_SRC="$D/src" timeout ${T:-1200} ./check "$1" ${3:-quick} > "$D/out.txt" 2>&1; rc=$?
grep -E "VIOLATION|UNDECIDED|ERROR|obligations discharged" "$D/out.txt" | cut -c1-300 | head -${N:-8}
echo "exit=$rc"
rm -rf "$D"
