#!/bin/sh
# usage: tools/seed_confirm.sh <worktree> <mutdir>   -- confirm a seeded change: demo fails with it / passes without; pinned tests unchanged
WT=$1; M=$2
cd "$WT" || exit 2
[ -f src/urllib3/_version.py ] || cp /repo/src/urllib3/_version.py src/urllib3/_version.py
git checkout -q -- . 
export PYTHONPATH="$WT/src"
if [ ! -f /tmp/mut/base_outcomes.txt ]; then
  /venv/bin/python -m pytest -q -p no:cacheprovider --timeout=900 --continue-on-collection-errors -p no:memray -rA 2>/dev/null | grep -E "^(PASSED|FAILED|ERROR)" | sed 's/ - .*//' | sort > /tmp/mut/base_outcomes.txt
fi
/venv/bin/python "$M/demo.py" >/dev/null 2>&1; echo "demo on pristine: exit $?"
git apply "$M/patch.diff" || { echo "patch does not apply"; exit 2; }
/venv/bin/python "$M/demo.py" > "$M/demo.out" 2>&1; echo "demo with change: exit $?"; tail -3 "$M/demo.out"
/venv/bin/python -m pytest -q -p no:cacheprovider --timeout=900 --continue-on-collection-errors -p no:memray -rA 2>/dev/null | grep -E "^(PASSED|FAILED|ERROR)" | sed 's/ - .*//' | sort > "$M/outcomes.txt"
echo "tests: base $(grep -c ^PASSED /tmp/mut/base_outcomes.txt) passed; mutated $(grep -c ^PASSED "$M/outcomes.txt") passed; differing lines:"
diff /tmp/mut/base_outcomes.txt "$M/outcomes.txt" | head -10
git checkout -q -- .
