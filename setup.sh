#!/bin/sh
# Nothing to build or fetch: verify the tools the checks need are present.
set -e
command -v python3-vt >/dev/null
test -x /venv/bin/python
python3-vt -c "import z3; assert z3.get_version() >= (4,8)"
test -x /usr/bin/cvc5
echo "setup ok"
