"""Loops by invariant, `with`, comprehensions over symbolic sequences (DESIGN §2.6)."""
from __future__ import annotations
import ast
import z3
from .values import *
from .state import *
from .world import Unsupported, SpecError
from . import builtins as B


def _inv_for(I, fr, node):
    r = B.loop_spec(I, fr, node)
    if not r or r[0] is None:
        ordn = r[1] if r else "?"
        raise Unsupported(f"loop #{ordn} at line {node.lineno} in {fr.q} has no invariant")
    return r


def _havoc_for_loop(I, st, body, fr, spec):
    names, fields, calls = B.assigned_names(body)
    for n in names:
        if n in st.env:
            old = st.env[n]
            if isinstance(old, Sym):
                st.env[n] = I.fresh_v("lv_" + n, old.hint)
            else:
                raise Unsupported(f"loop assigns non-scalar local {n}")
        # names first assigned inside the loop are simply undefined at the head
    for f in fields | set(spec["opts"].get("modifies_fields", [])):
        st.heap[f] = z3.Const(I.w.fresh("H_" + f), field_sort(f))
    for g in spec["opts"].get("modifies_ghost", []):
        st.ghost[g] = I.fresh_v("g_" + g)
    if spec["opts"].get("allocates", True):
        nf = I.fresh_int("A")
        st.pc.append(nf >= st.frontier)
        st.frontier = nf
    st.version += 1


def while_invariant(I, st, s, fr):
    spec, ordn = _inv_for(I, fr, s)
    env = lambda s_: dict(s_.env)
    # init
    for nm, expr in spec["inv"]:
        I.oblige(st, f"loop{ordn}:init:{nm}", I.spec_bool(st, expr, env(st), old=st.old), kind="inv")
    head = st.fork()
    _havoc_for_loop(I, head, s.body, fr, spec)
    for nm, expr in spec["inv"]:
        head.pc.append(I.spec_bool(head, expr, env(head), old=head.old))
    res = []
    def body(s2):
        outs = I.exec_block(s2, s.body, fr)
        r = []
        for o in outs:
            if o.kind in ("normal", "continue"):
                for nm, expr in spec["inv"]:
                    I.oblige(o.st, f"loop{ordn}:preserve:{nm}", I.spec_bool(o.st, expr, env(o.st), old=o.st.old), kind="inv")
                # path ends (covered by the arbitrary iteration)
            elif o.kind == "break":
                r.append(Out(o.st, "normal"))
            else:
                r.append(o)
        return r
    def exit_(s2):
        return I.exec_block(s2, s.orelse, fr) if s.orelse else [Out(s2, "normal")]
    return I.ev_cond(head, s.test, fr, body, exit_)


def for_invariant(I, st, s, itv, fr):
    """for x in <heap sequence of symbolic length> with a sidecar invariant over ghost index `_i`."""
    spec, ordn = _inv_for(I, fr, s)
    if spec["opts"].get("iter") in ("dict-keys", "dict-items", "opaque"):
        return opaque_iteration(I, st, s, itv, fr, spec, ordn)
    if not isinstance(itv, Sym):
        raise Unsupported(f"for over {itv!r}")
    t = itv.t
    ok = I.is_seq(t)
    if not z3.is_true(z3.simplify(ok)) and I.feasible(st, z3.Not(ok)):
        raise Unsupported("for over a value not known to be a list/tuple")
    st.pc.append(ok)
    loc = get_loc(t)
    n = st.read(LEN, loc)
    st.pc.append(n >= 0)
    els = st.read(ELS, loc)
    idx = spec["opts"].get("index", "_i")
    env = lambda s_, i: {**s_.env, idx: Sym(mk_int(i))}
    for nm, expr in spec["inv"]:
        I.oblige(st, f"loop{ordn}:init:{nm}", I.spec_bool(st, expr, env(st, z3.IntVal(0)), old=st.old), kind="inv")
    head = st.fork()
    _havoc_for_loop(I, head, s.body + [ast.Assign(targets=[s.target], value=ast.Constant(value=None))], fr, spec)
    i = I.fresh_int("i")
    head.pc += [i >= 0, i <= n]
    for nm, expr in spec["inv"]:
        head.pc.append(I.spec_bool(head, expr, env(head, i), old=head.old))
    def body(s2):
        item = Sym(z3.Select(els, i), B.field_hint(I, itv.hint, "$item"))
        r = []
        for a in I.assign(s2, s.target, item, fr):
            if a.kind != "normal":
                r.append(a); continue
            for o in I.exec_block(a.st, s.body, fr):
                if o.kind in ("normal", "continue"):
                    for nm, expr in spec["inv"]:
                        I.oblige(o.st, f"loop{ordn}:preserve:{nm}", I.spec_bool(o.st, expr, env(o.st, i + 1), old=o.st.old), kind="inv")
                elif o.kind == "break":
                    r.append(Out(o.st, "normal"))
                else:
                    r.append(o)
        return r
    def exit_(s2):
        return I.exec_block(s2, s.orelse, fr) if s.orelse else [Out(s2, "normal")]
    return I.branch(head, i < n, body, exit_)


class GenOver(Value):
    """A generator expression over a collection of unknown size (only consumable by set()/frozenset())."""
    __slots__ = ("src", "node")

    def __init__(self, src, node):
        self.src, self.node = src, node


def symbolic_comprehension(I, st, e, itv, fr, k, kind):
    if kind == "gen" and isinstance(itv, Sym):
        B.note(I, "generator expression over a collection of unknown size: its element expression is assumed not to raise")
        return k(st, GenOver(itv, e))
    raise Unsupported("comprehension over a sequence of symbolic length")


def exec_with(I, st, s, fr):
    if len(s.items) != 1:
        raise Unsupported("with: multiple items")
    item = s.items[0]
    def got(s2, cm):
        h = B.WITH_HANDLERS
        for pred, fn in h:
            if pred(I, s2, cm):
                return fn(I, s2, s, cm, fr)
        raise Unsupported(f"with over {cm!r}")
    return I.ev(st, item.context_expr, fr, got)


def _havoc_objects(I, st, names):
    """forget the content of the dict/list objects held by these locals (only their own entries of the container arrays)"""
    for nm in names:
        v = st.env.get(nm)
        if not isinstance(v, Sym):
            raise Unsupported(f"havoc_objects: local {nm} is not a heap object here")
        loc = get_loc(v.t)
        st.write(HAS, loc, z3.Const(I.w.fresh("hv_has"), z3.ArraySort(V, z3.BoolSort())))
        st.write(MAP, loc, z3.Const(I.w.fresh("hv_map"), z3.ArraySort(V, V)))
        n = z3.Int(I.w.fresh("hv_len"))
        st.fact(n >= 0)
        st.write(LEN, loc, n)


def opaque_iteration(I, st, s, itv, fr, spec, ordn):
    """`for x in <mapping keys / iterable we know nothing about>`: the body runs an unknown number of times on items
    we know nothing about (keys of a dict: members of it).  Loop-assigned locals and the listed objects are havocked,
    the invariant is assumed at the head and must be re-established by the body."""
    B.note(I, "for-loop over an opaque iterable: unknown number of iterations over unconstrained items (invariant-based)")
    env = lambda s_: dict(s_.env)
    for nm, expr in spec["inv"]:
        I.oblige(st, f"loop{ordn}:init:{nm}", I.spec_bool(st, expr, env(st), old=st.old), kind="inv")
    head = st.fork()
    _havoc_for_loop(I, head, s.body + [ast.Assign(targets=[s.target], value=ast.Constant(value=None))], fr, spec)
    _havoc_objects(I, head, spec["opts"].get("havoc_objects", []))
    for nm, expr in spec["inv"]:
        head.pc.append(I.spec_bool(head, expr, env(head), old=head.old))
    outs = []
    # exit (zero or all iterations done)
    ex = head.fork()
    outs += I.exec_block(ex, s.orelse, fr) if s.orelse else [Out(ex, "normal")]
    # one more iteration on an arbitrary item
    item = I.fresh_v("item")
    if spec["opts"].get("iter") == "dict-keys" and isinstance(itv, Sym):
        head.fact(z3.Select(head.read(HAS, get_loc(itv.t)), item.t))
    kt = spec["opts"].get("item_type")
    if kt == "str":
        head.fact(is_str(item.t))
    if spec["opts"].get("iter") == "dict-items":
        if not (isinstance(itv, B.ItemsOf) and isinstance(itv.src, Sym)):
            raise Unsupported(f"dict-items iteration over {itv!r}")
        mloc = get_loc(itv.src.t)
        head.fact(z3.Select(head.read(HAS, mloc), item.t))        # the key is a key of the mapping
        if spec["opts"].get("key_type") == "str":
            head.fact(is_str(item.t))
        val = Sym(z3.Select(head.read(MAP, mloc), item.t))
        if spec["opts"].get("value_type") == "str":
            head.fact(is_str(val.t))
        item = Tup([item, val])
    for a in I.assign(head, s.target, item, fr):
        if a.kind != "normal":
            outs.append(a); continue
        snap = (dict(a.st.heap), a.st.frontier, dict(a.st.ghost), len(a.st.events))      # state at the start of this iteration
        item0 = item
        for o in I.exec_block(a.st, s.body, fr):
            if o.kind in ("normal", "continue"):
                for nm, expr in spec["inv"]:
                    I.oblige(o.st, f"loop{ordn}:preserve:{nm}", I.spec_bool(o.st, expr, env(o.st), old=o.st.old), kind="inv")
                for nm, expr in spec["opts"].get("iter_post", []):
                    # per-iteration effect: old(...) here is the state at the START OF THE ITERATION
                    I.oblige(o.st, f"loop{ordn}:iteration:{nm}", I.spec_bool(o.st, expr, {**env(o.st), "_item": item0}, old=snap), kind="inv")
            elif o.kind == "break":
                outs.append(Out(o.st, "normal"))
            else:
                outs.append(o)
    for o in outs:
        if o.kind == "normal":
            for g_, expr in (spec["opts"].get("capture") or {}).items():
                # ghost code attached to the loop exit: remember a value for the postcondition
                o.st.ghost[g_] = I.spec_value(o.st, expr, env(o.st), old=o.st.old)
    return outs
