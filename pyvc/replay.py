"""From a counter-model to a replay file, and (L1) a native re-execution of the real function."""
from __future__ import annotations
import json, os, re, subprocess, sys

VERIF = os.path.dirname(os.path.dirname(os.path.abspath(__file__)))
RUNPY = "/venv/bin/python"


def _safe(name):
    return re.sub(r"[^A-Za-z0-9_.:-]+", "_", name)[:150]


def write_and_run(prop, name, o, w):
    """Returns (path, reproduced)."""
    d = os.path.join(VERIF, "replays", prop)
    os.makedirs(d, exist_ok=True)
    path = os.path.join(d, _safe(name.split("/", 1)[1]) + ".json")
    id2cls = {v: k for k, v in w.class_ids.items()}
    sing = {v: k for k, v in w.singletons.items()}
    func = name.split("/")[1]
    rec = {
        "property": prop, "obligation": name, "function": o.get("func") or func, "kind": o.get("kind"),
        "solver": {"verdict": o["verdict"], "backend": o.get("backend"), "time_s": o.get("time_s"), "reason": o.get("reason")},
        "model": o.get("model"), "path_trace": o.get("trace"), "clause": o.get("clause"),
        "class_names": {str(k): v for k, v in id2cls.items()},
        "singletons": {str(k): v for k, v in sing.items()},
        "src": w.src,
        "rerun": f"./check {prop} --replay {os.path.relpath(path, VERIF)}",
    }
    json.dump(rec, open(path, "w"), indent=1, default=str)
    reproduced = False
    if o.get("model") is not None and o.get("qual"):
        rec["function_qualname"] = o["qual"]
        json.dump(rec, open(path, "w"), indent=1, default=str)
        try:
            p = subprocess.run([RUNPY, os.path.join(VERIF, "pyvc", "native_replay.py"), path], capture_output=True,
                               text=True, timeout=60, env=dict(os.environ, PYVC_SRC=w.src, PYTHONPATH=w.src))
            rec["native"] = {"exit": p.returncode, "stdout": p.stdout[-3000:], "stderr": p.stderr[-1500:]}
            reproduced = p.returncode == 10
        except Exception as e:          # noqa
            rec["native"] = {"error": repr(e)}
        rec["reproduced"] = reproduced
        json.dump(rec, open(path, "w"), indent=1, default=str)
    return os.path.relpath(path, VERIF), reproduced


def write_bounded(prop, rec, w):
    """A failure of a bounded contract check: the failing input was found by running the real code."""
    d = os.path.join(VERIF, "replays", prop)
    os.makedirs(d, exist_ok=True)
    import hashlib
    h = hashlib.sha1(json.dumps(rec["input"], default=repr).encode()).hexdigest()[:8]
    path = os.path.join(d, _safe("bounded-" + rec["case"]) + "-" + h + ".json")
    out = {"property": prop, "obligation": rec["name"], "bounded": True, "module": rec["module"], "case": rec["case"],
           "input": rec["input"], "message": rec["message"], "reproduced": True, "src": w.src,
           "rerun": f"./check {prop} --replay {os.path.relpath(path, VERIF)}"}
    json.dump(out, open(path, "w"), indent=1, default=repr)
    return os.path.relpath(path, VERIF)


def rerun(path):
    rec = json.load(open(path))
    if rec.get("bounded"):
        from pyvc import bounded
        rc, r = bounded.replay_one(rec, os.environ.get("PYVC_SRC", "/repo/src"))
        print(f"replay of bounded contract check {rec['obligation']} on input {json.dumps(rec['input'])[:300]}")
        print("result:", r)
        if rc == 1:
            print(f"VIOLATION property={rec['property']} replay={path}")
            return 1
        return 0 if rc == 0 else 3
    print(f"replay of {rec['obligation']} (solver said {rec['solver']['verdict']})")
    print("model:", json.dumps(rec.get("model"), default=str)[:2000])
    if rec.get("function_qualname") and rec.get("model") is not None:
        p = subprocess.run([RUNPY, os.path.join(VERIF, "pyvc", "native_replay.py"), path], text=True,
                           env=dict(os.environ, PYVC_SRC=os.environ.get("PYVC_SRC", "/repo/src"),
                                    PYTHONPATH=os.environ.get("PYVC_SRC", "/repo/src")))
        if p.returncode == 10:
            print(f"VIOLATION property={rec['property']} replay={path}")
            return 1
        print("native replay did not reproduce the failure on this tree (exit %d)" % p.returncode)
        return 0
    print("no native replay available for this obligation (no-failing-input-found); re-run the check itself")
    return 0
