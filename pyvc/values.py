"""Value encoding shared by the executor and the spec translator (DESIGN §2.4).

One universal SMT datatype V; heap objects are references (integers).  Python-side wrapper
classes describe values whose *shape* is concrete on the current path (tuples / local lists /
local dicts of known length, classes, functions), so that idioms such as ``dict(a=..).update(kw)``
and ``cls(**params)`` execute without any heap encoding.
"""
from __future__ import annotations
import z3

z3.set_param("model.compact", False)

_V = z3.Datatype("V")
_V.declare("none")
_V.declare("bool", ("b", z3.BoolSort()))
_V.declare("int", ("i", z3.IntSort()))
_V.declare("flt", ("r", z3.RealSort()))
_V.declare("str", ("s", z3.StringSort()))
_V.declare("byt", ("y", z3.StringSort()))
_V.declare("ref", ("loc", z3.IntSort()))
V = _V.create()

NONE = V.none
mk_bool, mk_int, mk_flt, mk_str, mk_byt, mk_ref = V.bool, V.int, V.flt, V.str, V.byt, V.ref
is_none, is_bool, is_int, is_flt, is_str, is_byt, is_ref = (
    V.is_none, V.is_bool, V.is_int, V.is_flt, V.is_str, V.is_byt, V.is_ref)
get_b, get_i, get_r, get_s, get_y, get_loc = V.b, V.i, V.r, V.s, V.y, V.loc

IntArr = z3.ArraySort(z3.IntSort(), V)              # field / element arrays
cls_of = z3.Function("cls_of", z3.IntSort(), z3.IntSort())

TRUE = mk_bool(z3.BoolVal(True))
FALSE = mk_bool(z3.BoolVal(False))


def pyint(n: int):
    return mk_int(z3.IntVal(n))


def pystr(s: str):
    return mk_str(z3.StringVal(s))


def pybytes(b: bytes):
    return mk_byt(z3.StringVal(b.decode("latin-1")))


def pyfloat(x):
    return mk_flt(z3.RealVal(repr(x) if isinstance(x, float) else x))


def is_numeric(t):
    """int, bool or float (Python's numeric tower as far as urllib3 uses it)."""
    return z3.Or(is_int(t), is_bool(t), is_flt(t))


def is_intlike(t):
    return z3.Or(is_int(t), is_bool(t))


def as_int(t):
    """integer value of an int/bool (bool is a subtype of int: True == 1)."""
    return z3.If(is_bool(t), z3.If(get_b(t), z3.IntVal(1), z3.IntVal(0)), get_i(t))


def as_real(t):
    return z3.If(is_flt(t), get_r(t), z3.ToReal(as_int(t)))


class Value:
    __slots__ = ()


class Sym(Value):
    """A symbolic V term; ``hint`` is the statically known class (qualified name) if any."""
    __slots__ = ("t", "hint")

    def __init__(self, t, hint=None):
        self.t = t
        self.hint = hint

    def __repr__(self):
        return f"Sym({self.t}{'::' + self.hint if self.hint else ''})"


class Tup(Value):
    """Immutable tuple of concrete length (items are Values)."""
    __slots__ = ("items",)

    def __init__(self, items):
        self.items = list(items)

    def __repr__(self):
        return f"Tup({self.items})"


class LList(Value):
    """Path-local mutable list of concrete length: the items live in State.lheap[id]."""
    __slots__ = ("id",)

    def __init__(self, id):
        self.id = id


class LDict(Value):
    """Path-local dict with concrete (Python str/int/None) keys: State.lheap[id] is an ordered dict."""
    __slots__ = ("id",)

    def __init__(self, id):
        self.id = id


class LSet(Value):
    """Path-local set/frozenset with concrete python keys (str/int)."""
    __slots__ = ("items", "frozen")

    def __init__(self, items, frozen=True):
        self.items = frozenset(items)
        self.frozen = frozen


class ClassV(Value):
    __slots__ = ("q",)

    def __init__(self, q):
        self.q = q

    def __repr__(self):
        return f"Class({self.q})"


class FuncV(Value):
    """A function whose source we have (module function, method, nested def, lambda)."""
    __slots__ = ("q", "node", "module", "cls", "closure", "kind")

    def __init__(self, q, node, module, cls=None, closure=None, kind="function"):
        self.q, self.node, self.module, self.cls, self.closure, self.kind = q, node, module, cls, closure, kind

    def __repr__(self):
        return f"Func({self.q})"


class BuiltinV(Value):
    __slots__ = ("name",)

    def __init__(self, name):
        self.name = name

    def __repr__(self):
        return f"Builtin({self.name})"


class BoundV(Value):
    """Bound method: receiver + function (FuncV) or builtin method name."""
    __slots__ = ("recv", "func", "name")

    def __init__(self, recv, func, name):
        self.recv, self.func, self.name = recv, func, name

    def __repr__(self):
        return f"Bound({self.recv}.{self.name})"


class ModV(Value):
    __slots__ = ("name",)

    def __init__(self, name):
        self.name = name

    def __repr__(self):
        return f"Mod({self.name})"


class RegexV(Value):
    __slots__ = ("facts",)

    def __init__(self, facts):
        self.facts = facts


class SuperV(Value):
    __slots__ = ("recv", "after")

    def __init__(self, recv, after):
        self.recv, self.after = recv, after
