"""str / bytes methods over z3 strings (exact where z3 has the operation, uninterpreted with stated axioms otherwise)."""
from __future__ import annotations
import z3
from .values import *
from .state import *
from .world import Unsupported
from . import builtins as B


def _s(t):
    return z3.If(is_str(t), get_s(t), get_y(t))


def _wrap(t, s):
    return z3.If(is_str(t), mk_str(s), mk_byt(s))


def call_method(I, st, recv, name, args, kwargs, fr, k):
    t = recv.t
    isstr = z3.Or(is_str(t), is_byt(t))
    def on_str(s2):
        fn = STR_METHODS.get(name)
        if fn is None:
            raise Unsupported(f"str method {name}")
        return fn(I, s2, recv, args, kwargs, fr, k)
    def other(s2):
        fn = REF_METHODS.get(name)
        if fn is not None:
            return fn(I, s2, recv, args, kwargs, fr, k)
        if z3.is_true(z3.simplify(is_none(t))) or not I.feasible(s2, is_ref(t)):
            return I.raise_(s2, "builtins.AttributeError", f"None.{name}")
        return B.unsupported_path(I, s2, f"method {name} on {recv!r}")
    if name not in STR_METHODS:
        return other(st)
    return I.branch(st, isstr, on_str, other)


def m_upper(I, st, recv, args, kwargs, fr, k):
    s = _s(recv.t)
    u = B.str_upper(s)
    st.fact(B.str_upper(u) == u, z3.Length(u) == z3.Length(s))
    B.note(I, "str.upper uninterpreted: idempotent, length-preserving (ASCII view)")
    return k(st, Sym(_wrap(recv.t, u)))


def m_lower(I, st, recv, args, kwargs, fr, k):
    s = _s(recv.t)
    u = B.str_lower(s)
    st.fact(B.str_lower(u) == u, z3.Length(u) == z3.Length(s))
    B.note(I, "str.lower uninterpreted: idempotent, length-preserving (ASCII view)")
    return k(st, Sym(_wrap(recv.t, u)))


def m_startswith(I, st, recv, args, kwargs, fr, k):
    a = B.as_sym(I, st, args[0])
    return k(st, Sym(mk_bool(z3.PrefixOf(_s(a.t), _s(recv.t)))))


def m_endswith(I, st, recv, args, kwargs, fr, k):
    a = B.as_sym(I, st, args[0])
    return k(st, Sym(mk_bool(z3.SuffixOf(_s(a.t), _s(recv.t)))))


def m_format(I, st, recv, args, kwargs, fr, k):
    B.note(I, "str.format opaque,total")
    return k(st, Sym(mk_str(z3.String(I.w.fresh("fmt")))))


def m_encode(I, st, recv, args, kwargs, fr, k):
    B.note(I, "str.encode: identity on the code-point view for ASCII; opaque otherwise")
    s = get_s(recv.t)
    return k(st, Sym(mk_byt(s)))


STR_METHODS = {"upper": m_upper, "lower": m_lower, "startswith": m_startswith, "endswith": m_endswith,
               "format": m_format}
REF_METHODS = {}
