"""str / bytes methods over z3 strings (exact where z3 has the operation, uninterpreted with stated axioms otherwise)."""
from __future__ import annotations
import z3
from .values import *
from .state import *
from .world import Unsupported
from . import builtins as B


def _s(t):
    return z3.If(is_str(t), get_s(t), get_y(t))


def _wrap(t, s):
    return z3.If(is_str(t), mk_str(s), mk_byt(s))


def call_method(I, st, recv, name, args, kwargs, fr, k):
    t = recv.t
    isstr = z3.Or(is_str(t), is_byt(t))
    def on_str(s2):
        fn = STR_METHODS.get(name)
        if fn is None:
            raise Unsupported(f"str method {name}")
        return fn(I, s2, recv, args, kwargs, fr, k)
    def other(s2):
        fn = REF_METHODS.get(name)
        if fn is not None:
            return fn(I, s2, recv, args, kwargs, fr, k)
        if z3.is_true(z3.simplify(is_none(t))) or not I.feasible(s2, is_ref(t)):
            return I.raise_(s2, "builtins.AttributeError", f"None.{name}")
        return B.unsupported_path(I, s2, f"method {name} on {recv!r}")
    if name not in STR_METHODS:
        return other(st)
    return I.branch(st, isstr, on_str, other)


def m_upper(I, st, recv, args, kwargs, fr, k):
    s = _s(recv.t)
    u = B.str_upper(s)
    st.fact(B.str_upper(u) == u, z3.Length(u) == z3.Length(s))
    B.note(I, "str.upper uninterpreted: idempotent, length-preserving (ASCII view)")
    return k(st, Sym(_wrap(recv.t, u)))


def m_lower(I, st, recv, args, kwargs, fr, k):
    s = _s(recv.t)
    u = B.str_lower(s)
    st.fact(B.str_lower(u) == u, z3.Length(u) == z3.Length(s))
    B.note(I, "str.lower uninterpreted: idempotent, length-preserving (ASCII view)")
    return k(st, Sym(_wrap(recv.t, u)))


def m_startswith(I, st, recv, args, kwargs, fr, k):
    a = B.as_sym(I, st, args[0])
    return k(st, Sym(mk_bool(z3.PrefixOf(_s(a.t), _s(recv.t)))))


def m_endswith(I, st, recv, args, kwargs, fr, k):
    a = B.as_sym(I, st, args[0])
    return k(st, Sym(mk_bool(z3.SuffixOf(_s(a.t), _s(recv.t)))))


def m_format(I, st, recv, args, kwargs, fr, k):
    B.note(I, "str.format opaque,total")
    return k(st, Sym(mk_str(z3.String(I.w.fresh("fmt")))))


def m_encode(I, st, recv, args, kwargs, fr, k):
    B.note(I, "str.encode: identity on the code-point view for ASCII; opaque otherwise")
    s = get_s(recv.t)
    return k(st, Sym(mk_byt(s)))


def r_items(I, st, recv, args, kwargs, fr, k):
    return k(st, B.ItemsOf(recv))


def r_dict_copy(I, st, recv, args, kwargs, fr, k):
    """dict.copy() on a heap dict: a fresh dict object with the same membership/map arrays."""
    t = recv.t
    def ok(s2):
        loc = get_loc(t)
        new = I.alloc(s2, "builtins.dict")
        s2.write(HAS, new, s2.read(HAS, loc))
        s2.write(MAP, new, s2.read(MAP, loc))
        s2.write(LEN, new, s2.read(LEN, loc))
        return k(s2, Sym(mk_ref(new), hint="builtins.dict"))
    return I.branch(st, I.w.isinstance_term(t, ["builtins.dict"]), ok, lambda s2: B.unsupported_path(I, s2, ".copy() on a non-dict"))


def r_dict_get(I, st, recv, args, kwargs, fr, k):
    t = recv.t
    kt = B.as_sym(I, st, args[0]).t
    default = args[1] if len(args) > 1 else Sym(NONE)
    def ok(s2):
        loc = get_loc(t)
        has = z3.Select(s2.read(HAS, loc), kt)
        val = z3.Select(s2.read(MAP, loc), kt)
        return k(s2, Sym(z3.If(has, val, I.term(s2, default))))
    return I.branch(st, I.w.isinstance_term(t, ["builtins.dict"]), ok, lambda s2: B.unsupported_path(I, s2, ".get() on a non-dict"))


STR_METHODS = {"upper": m_upper, "lower": m_lower, "startswith": m_startswith, "endswith": m_endswith,
               "format": m_format}
REF_METHODS = {"items": r_items, "copy": r_dict_copy, "get": r_dict_get}
