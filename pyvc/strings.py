"""str / bytes methods over z3 strings (exact where z3 has the operation, uninterpreted with stated axioms otherwise)."""
from __future__ import annotations
import z3
from .values import *
from .state import *
from .world import Unsupported
from . import builtins as B


def _s(t):
    return z3.If(is_str(t), get_s(t), get_y(t))


def _wrap(t, s):
    return z3.If(is_str(t), mk_str(s), mk_byt(s))


def call_method(I, st, recv, name, args, kwargs, fr, k):
    t = recv.t
    folded = fold_concrete(I, st, recv, name, args, kwargs)
    if folded is not None:
        B.note(I, "constant folding of pure str/bytes methods by the engine's interpreter")
        return k(st, I.const_val(folded) if not isinstance(folded, list) else B.new_list(I, st, [I.const_val(x) for x in folded]))
    isstr = z3.Or(is_str(t), is_byt(t))
    def on_str(s2):
        fn = STR_METHODS.get(name)
        if fn is None:
            raise Unsupported(f"str method {name}")
        return fn(I, s2, recv, args, kwargs, fr, k)
    def other(s2):
        fn = REF_METHODS.get(name)
        if fn is not None:
            return fn(I, s2, recv, args, kwargs, fr, k)
        if z3.is_true(z3.simplify(is_none(t))) or not I.feasible(s2, is_ref(t)):
            return I.raise_(s2, "builtins.AttributeError", f"None.{name}")
        return B.unsupported_path(I, s2, f"method {name} on {recv!r}")
    if name not in STR_METHODS:
        return other(st)
    if fr.spec:
        return on_str(st)         # specs have total semantics: a string method in a spec is applied to the string view
    if z3.is_true(z3.simplify(isstr)) or not I.feasible(st, z3.Not(isstr)):
        return on_str(st)
    return I.branch(st, isstr, on_str, other)


def m_upper(I, st, recv, args, kwargs, fr, k):
    s = _s(recv.t)
    u = B.str_upper(s)
    st.fact(B.str_upper(u) == u, z3.Length(u) == z3.Length(s))
    B.note(I, "str.upper uninterpreted: idempotent, length-preserving (ASCII view)")
    return k(st, Sym(_wrap(recv.t, u)))


def m_lower(I, st, recv, args, kwargs, fr, k):
    s = _s(recv.t)
    u = B.str_lower(s)
    st.fact(B.str_lower(u) == u, z3.Length(u) == z3.Length(s))
    B.note(I, "str.lower uninterpreted: idempotent, length-preserving (ASCII view)")
    return k(st, Sym(_wrap(recv.t, u)))


def m_startswith(I, st, recv, args, kwargs, fr, k):
    a = B.as_sym(I, st, args[0])
    return k(st, Sym(mk_bool(z3.PrefixOf(_s(a.t), _s(recv.t)))))


def m_endswith(I, st, recv, args, kwargs, fr, k):
    a = B.as_sym(I, st, args[0])
    return k(st, Sym(mk_bool(z3.SuffixOf(_s(a.t), _s(recv.t)))))


def m_format(I, st, recv, args, kwargs, fr, k):
    B.note(I, "str.format opaque,total")
    return k(st, Sym(mk_str(z3.String(I.w.fresh("fmt")))))


def m_encode(I, st, recv, args, kwargs, fr, k):
    B.note(I, "str.encode: identity on the code-point view for ASCII; opaque otherwise")
    s = get_s(recv.t)
    return k(st, Sym(mk_byt(s)))


def r_items(I, st, recv, args, kwargs, fr, k):
    return k(st, B.ItemsOf(recv))


DICTLIKE = ["builtins.dict", "urllib3._collections.HTTPHeaderDict"]     # mappings modelled by membership/value arrays


def r_dict_copy(I, st, recv, args, kwargs, fr, k):
    """dict.copy() on a heap dict: a fresh dict object with the same membership/map arrays."""
    t = recv.t
    def ok(s2):
        loc = get_loc(t)
        new = z3.Int(I.w.fresh("a"))
        s2.fact(new >= s2.frontier, cls_of(new) == cls_of(loc))       # a copy has the class of the original
        s2.frontier = new + 1
        s2.write(HAS, new, s2.read(HAS, loc))
        s2.write(MAP, new, s2.read(MAP, loc))
        s2.write(LEN, new, s2.read(LEN, loc))
        B.note(I, "mapping.copy(): fresh object of the same class with the same membership/values (HTTPHeaderDict abstracted to its mapping content)")
        return k(s2, Sym(mk_ref(new), hint=recv.hint if recv.hint in DICTLIKE else None))
    return I.branch(st, I.w.isinstance_term(t, DICTLIKE), ok, lambda s2: B.unsupported_path(I, s2, ".copy() on a non-mapping"))


def r_dict_get(I, st, recv, args, kwargs, fr, k):
    t = recv.t
    kt = B.as_sym(I, st, args[0]).t
    default = args[1] if len(args) > 1 else Sym(NONE)
    def ok(s2):
        loc = get_loc(t)
        has = z3.Select(s2.read(HAS, loc), kt)
        val = z3.Select(s2.read(MAP, loc), kt)
        return k(s2, Sym(z3.If(has, val, I.term(s2, default))))
    return I.branch(st, I.w.isinstance_term(t, DICTLIKE), ok, lambda s2: B.unsupported_path(I, s2, ".get() on a non-dict"))


STR_METHODS = {"upper": m_upper, "lower": m_lower, "startswith": m_startswith, "endswith": m_endswith,
               "format": m_format}
REF_METHODS = {"items": r_items, "copy": r_dict_copy, "get": r_dict_get}


# ------------------------------------------------------------------ more str/bytes methods
def _conc(I, st, v):
    """python str/bytes of a concrete value, else None"""
    ck = B.concrete_key(I, st, v) if isinstance(v, Sym) else None
    return ck if isinstance(ck, (str, bytes)) else None


def _charset_re(chars):
    """z3 regex matching any single character of the python string `chars`"""
    if not chars:
        return z3.Empty(z3.ReSort(z3.StringSort()))
    parts = [z3.Re(z3.Unit(z3.CharVal(ord(c) if isinstance(c, str) else c))) for c in chars]
    return parts[0] if len(parts) == 1 else z3.Union(*parts)


WS = " \t\n\r\x0b\x0c"


def _strip(mode):
    def f(I, st, recv, args, kwargs, fr, k):
        s = _s(recv.t)
        chars = WS
        if args and not z3.is_true(z3.simplify(is_none(B.as_sym(I, st, args[0]).t))):
            c = _conc(I, st, args[0])
            if c is None:
                raise Unsupported("strip with symbolic character set")
            chars = c if isinstance(c, str) else c.decode("latin-1")
        else:
            B.note(I, "str.strip() without argument strips ASCII white space only (Unicode spaces not modelled)")
        cs = _charset_re(chars)
        # the decomposition is unique, so result / stripped ends are FUNCTIONS of the string (same input, same term)
        tag_ = mode + "_" + "".join(f"{ord(ch):02x}" for ch in chars)
        fn_ = lambda nm: z3.Function(f"{nm}_{tag_}", z3.StringSort(), z3.StringSort())
        r = fn_("strip")(s); a = fn_("lead")(s); b = fn_("trail")(s)
        one = cs
        facts = [s == z3.Concat(a, r, b), z3.InRe(a, z3.Star(cs)), z3.InRe(b, z3.Star(cs))]
        if mode in ("strip", "lstrip"):
            facts.append(z3.Not(z3.InRe(z3.SubString(r, 0, 1), one)))
        else:
            facts.append(a == z3.StringVal(""))
        if mode in ("strip", "rstrip"):
            facts.append(z3.Not(z3.InRe(z3.SubString(r, z3.Length(r) - 1, 1), one)))
        else:
            facts.append(b == z3.StringVal(""))
        st.fact(*facts)
        return k(st, Sym(_wrap(recv.t, r)))
    return f


def m_partition(last):
    def f(I, st, recv, args, kwargs, fr, k):
        s = _s(recv.t)
        sep = _s(B.as_sym(I, st, args[0]).t)
        idx = z3.LastIndexOf(s, sep) if last else z3.IndexOf(s, sep, 0)
        found = idx >= 0
        n = z3.Length(s); m = z3.Length(sep)
        empty = z3.StringVal("")
        if last:
            a = z3.If(found, z3.SubString(s, 0, idx), empty)
            mid = z3.If(found, sep, empty)
            b = z3.If(found, z3.SubString(s, idx + m, n - idx - m), s)
        else:
            a = z3.If(found, z3.SubString(s, 0, idx), s)
            mid = z3.If(found, sep, empty)
            b = z3.If(found, z3.SubString(s, idx + m, n - idx - m), empty)
        w = lambda x: Sym(_wrap(recv.t, x))
        return k(st, Tup([w(a), w(mid), w(b)]))
    return f


def m_find(last, raising):
    def f(I, st, recv, args, kwargs, fr, k):
        s = _s(recv.t)
        sub = _s(B.as_sym(I, st, args[0]).t)
        if len(args) > 1:
            raise Unsupported("find with start/end")
        idx = z3.LastIndexOf(s, sub) if last else z3.IndexOf(s, sub, 0)
        if raising:
            return I.branch(st, idx >= 0, lambda s2: k(s2, Sym(mk_int(idx))), lambda s2: I.raise_(s2, "builtins.ValueError", "substring not found"))
        return k(st, Sym(mk_int(idx)))
    return f


def m_replace(I, st, recv, args, kwargs, fr, k):
    s = _s(recv.t)
    a = _s(B.as_sym(I, st, args[0]).t); b = _s(B.as_sym(I, st, args[1]).t)
    if len(args) > 2:
        raise Unsupported("replace with count")
    ca = _conc(I, st, args[0])
    if ca is not None and len(ca) == 0:
        raise Unsupported("replace of empty string")
    r = z3.SeqRef(z3.Z3_mk_seq_replace_all(s.ctx_ref(), s.as_ast(), a.as_ast(), b.as_ast()), s.ctx)
    return k(st, Sym(_wrap(recv.t, r)))


def _pred(rx_src, note_txt=None):
    def f(I, st, recv, args, kwargs, fr, k):
        from . import regex
        lang = regex.language(regex.parse_literal(rx_src), "fullmatch")
        if note_txt:
            B.note(I, note_txt)
        return k(st, Sym(mk_bool(z3.InRe(_s(recv.t), lang))))
    return f


def m_isascii(I, st, recv, args, kwargs, fr, k):
    s = _s(recv.t)
    return k(st, Sym(mk_bool(z3.InRe(s, z3.Star(z3.Range(z3.Unit(z3.CharVal(0)), z3.Unit(z3.CharVal(127))))))))


def m_decode(I, st, recv, args, kwargs, fr, k):
    """bytes.decode(): exact for ASCII content; non-ASCII bytes: UnicodeDecodeError possible for utf-8/ascii (strict)."""
    s = _s(recv.t)
    enc = _conc(I, st, args[0]) if args else "utf-8"
    errors = _conc(I, st, args[1]) if len(args) > 1 else kwargs.get("errors") and _conc(I, st, kwargs["errors"]) or "strict"
    ascii_only = z3.InRe(s, z3.Star(z3.Range(z3.Unit(z3.CharVal(0)), z3.Unit(z3.CharVal(127)))))
    B.note(I, "bytes.decode: identity on ASCII content; non-ASCII content yields an opaque string or UnicodeDecodeError")
    def ok(s2):
        return k(s2, Sym(mk_str(s)))
    def non_ascii(s2):
        outs = []
        if enc in ("latin-1", "latin1", "iso-8859-1"):
            return k(s2, Sym(mk_str(s)))
        s3 = s2.fork()
        if errors == "strict":
            outs += I.raise_(s3, "builtins.UnicodeDecodeError", "decode")
        r = z3.String(I.w.fresh("decoded"))
        return outs + k(s2, Sym(mk_str(r)))
    return I.branch(st, ascii_only, ok, non_ascii)


def m_encode2(I, st, recv, args, kwargs, fr, k):
    """str.encode(): identity on ASCII; non-ASCII: opaque bytes (utf-8) or UnicodeEncodeError (ascii/latin-1, surrogates)."""
    s = get_s(recv.t)
    enc = (_conc(I, st, args[0]) if args else "utf-8") or "utf-8"
    errors = _conc(I, st, args[1]) if len(args) > 1 else "strict"
    ascii_only = z3.InRe(s, z3.Star(z3.Range(z3.Unit(z3.CharVal(0)), z3.Unit(z3.CharVal(127)))))
    B.note(I, "str.encode: identity on ASCII content; non-ASCII content yields opaque bytes (length >= len) or UnicodeEncodeError")
    def ok(s2):
        return k(s2, Sym(mk_byt(s)))
    # the encoding of a given string is a function of the string (deterministic): uninterpreted, one per codec/error mode
    r = z3.Function("enc_" + "".join(ch if ch.isalnum() else "_" for ch in f"{enc}_{errors}".lower()), z3.StringSort(), z3.StringSort())(s)
    if fr.spec:
        return k(st, Sym(mk_byt(z3.If(ascii_only, s, r))))       # specs: total (the value when the encoding succeeds)
    def non_ascii(s2):
        outs = []
        if not (enc.lower().replace("-", "") == "utf8" and errors == "surrogatepass"):
            s3 = s2.fork()
            outs += I.raise_(s3, "builtins.UnicodeEncodeError", "encode")
        s2.fact(z3.Length(r) >= z3.Length(s))
        return outs + k(s2, Sym(mk_byt(r)))
    return I.branch(st, ascii_only, ok, non_ascii)


def m_split(I, st, recv, args, kwargs, fr, k):
    """s.split(sep): a fresh list of >= 1 strings, none containing sep; joined by sep they give s back."""
    if not args or z3.is_true(z3.simplify(is_none(B.as_sym(I, st, args[0]).t))):
        raise Unsupported("split() on white space")
    if len(args) == 2 and not kwargs and B.concrete_key(I, st, args[1]) == 1:
        # s.split(sep, 1): [s] when sep does not occur, else [before first sep, rest]
        s_ = _s(recv.t); sep_ = _s(B.as_sym(I, st, args[0]).t)
        idx = z3.IndexOf(s_, sep_, 0)
        found = idx >= 0
        n_ = z3.Length(s_); m_ = z3.Length(sep_)
        a_ = z3.If(found, z3.SubString(s_, 0, idx), s_)
        b_ = z3.SubString(s_, idx + m_, n_ - idx - m_)
        def two(s2):
            return k(s2, B.new_list(I, s2, [Sym(_wrap(recv.t, a_)), Sym(_wrap(recv.t, b_))]))
        def one(s2):
            return k(s2, B.new_list(I, s2, [recv]))
        return I.branch(st, found, two, one)
    if len(args) > 1 or kwargs:
        raise Unsupported("split with maxsplit")
    s = _s(recv.t); sep = _s(B.as_sym(I, st, args[0]).t)
    loc = I.alloc(st, "builtins.list")
    n = st.read(LEN, loc)
    els = st.read(ELS, loc)
    j = z3.Int(I.w.fresh("j"))
    wrap_is = is_str if z3.is_true(z3.simplify(is_str(recv.t))) else (lambda t: z3.Or(is_str(t), is_byt(t)))
    st.fact(n >= 1, z3.Implies(z3.Not(z3.Contains(s, sep)), z3.And(n == 1, z3.Select(els, 0) == recv.t)),
            z3.Implies(z3.Contains(s, sep), n >= 2))
    st.fact(z3.ForAll([j], z3.Implies(z3.And(j >= 0, j < n), z3.And(wrap_is(z3.Select(els, j)),
                                                                    z3.Not(z3.Contains(_s(z3.Select(els, j)), sep)),
                                                                    z3.Contains(s, _s(z3.Select(els, j)))))))
    st.fact(split_of(z3.Select(st.arr(ELS), loc), n, mk_str(sep)) == recv.t)
    B.note(I, "str.split(sep): fresh list of >=1 pieces without sep; sep.join(pieces) is the original (uninterpreted join/split inverse)")
    return k(st, Sym(mk_ref(loc), hint="builtins.list"))


split_of = z3.Function("join_of", IntArr, z3.IntSort(), V, V)


def m_join(I, st, recv, args, kwargs, fr, k):
    sep = recv
    items = B.concrete_items(I, st, args[0])
    if items is not None:
        if not items:
            return k(st, Sym(_wrap(sep.t, z3.StringVal(""))))
        parts = []
        for i, it in enumerate(items):
            it = B.as_sym(I, st, it)
            if i:
                parts.append(_s(sep.t))
            parts.append(_s(it.t))
        bad = z3.Or([z3.Not(z3.Or(is_str(B.as_sym(I, st, it).t), is_byt(B.as_sym(I, st, it).t))) for it in items])
        res = Sym(_wrap(sep.t, z3.Concat(*parts) if len(parts) > 1 else parts[0]))
        return I.branch(st, bad, lambda s2: I.raise_(s2, "builtins.TypeError", "join of non-str"), lambda s2: k(s2, res))
    v = args[0]
    if isinstance(v, Sym):
        loc = get_loc(v.t)
        n = st.read(LEN, loc)
        r = split_of(st.read(ELS, loc), n, mk_str(_s(sep.t)))
        B.note(I, "sep.join(list of symbolic length): uninterpreted function of (elements, length, sep); inverse of split")
        out = z3.String(I.w.fresh("joined"))
        st.fact(z3.Or(r == _wrap(sep.t, out), z3.Not(z3.Or(is_str(r), is_byt(r)))))
        return k(st, Sym(z3.If(z3.Or(is_str(r), is_byt(r)), r, _wrap(sep.t, out))))
    raise Unsupported(f"join over {v!r}")


def m_startswith_multi(suffix):
    def f(I, st, recv, args, kwargs, fr, k):
        items = B.concrete_items(I, st, args[0]) if not isinstance(args[0], Sym) else [args[0]]
        if items is None:
            raise Unsupported("startswith over symbolic tuple")
        s = _s(recv.t)
        alts = []
        for it in items:
            a = _s(B.as_sym(I, st, it).t)
            alts.append(z3.SuffixOf(a, s) if suffix else z3.PrefixOf(a, s))
        return k(st, Sym(mk_bool(z3.Or(alts) if alts else z3.BoolVal(False))))
    return f


def m_count(I, st, recv, args, kwargs, fr, k):
    s = _s(recv.t)
    sub = _s(B.as_sym(I, st, args[0]).t)
    n = z3.Int(I.w.fresh("count"))
    st.fact(n >= 0, n <= z3.Length(s), (n > 0) == z3.Contains(s, sub) if not z3.is_true(z3.simplify(z3.Length(sub) == 0)) else n >= 0)
    B.note(I, "str.count(sub): an integer in [0, len]; positive iff sub occurs")
    return k(st, Sym(mk_int(n)))


def m_title(I, st, recv, args, kwargs, fr, k):
    r = z3.String(I.w.fresh("title"))
    st.fact(z3.Length(r) == z3.Length(_s(recv.t)))
    B.note(I, "str.title: opaque string of the same length")
    return k(st, Sym(_wrap(recv.t, r)))


STR_METHODS.update({
    "strip": _strip("strip"), "lstrip": _strip("lstrip"), "rstrip": _strip("rstrip"),
    "partition": m_partition(False), "rpartition": m_partition(True),
    "find": m_find(False, False), "rfind": m_find(True, False), "index": m_find(False, True),
    "replace": m_replace, "isascii": m_isascii, "decode": m_decode, "encode": m_encode2,
    "isdigit": _pred(r"[0-9]+", "str.isdigit: ASCII digits only (Unicode digits not modelled)"),
    "split": m_split, "join": m_join, "startswith": m_startswith_multi(False), "endswith": m_startswith_multi(True),
    "count": m_count, "title": m_title,
})


def fold_concrete(I, st, recv, name, args, kwargs):
    """All-concrete str/bytes method call: evaluate with the engine interpreter's own str/bytes
    (assumption: these pure methods agree between the engine's CPython and the one running urllib3)."""
    r = _conc(I, st, recv)
    if r is None:
        return None
    cargs = []
    for a in args:
        if isinstance(a, Tup):
            sub = [B.concrete_key(I, st, x) for x in a.items]
            if any(x is B._NOKEY for x in sub):
                return None
            cargs.append(tuple(sub))
            continue
        if not isinstance(a, Sym):
            return None
        c = B.concrete_key(I, st, a)
        if c is B._NOKEY:
            return None
        cargs.append(c)
    if kwargs:
        return None
    if name not in FOLDABLE:
        return None
    try:
        out = getattr(r, name)(*cargs)
    except Exception:
        return None
    return out


FOLDABLE = {"upper", "lower", "strip", "lstrip", "rstrip", "startswith", "endswith", "encode", "decode", "zfill", "hex", "title",
            "replace", "find", "rfind", "isdigit", "isascii", "count", "partition", "rpartition", "split", "join", "format", "index",
            "casefold", "capitalize"}


def r_dict_update(I, st, recv, args, kwargs, fr, k):
    """d.update(other) for heap dicts: membership is the union, other's values win (insertion order not modelled here)."""
    t = recv.t
    if len(args) != 1 or kwargs:
        raise Unsupported("dict.update with keywords")
    o = args[0]
    if isinstance(o, LDict):
        loc = get_loc(t)
        for key, v in st.lheap[o.id].items():
            B.dict_store(I, st, loc, I.const_term(key), I.term(st, v))
        return k(st, Sym(NONE))
    if not isinstance(o, Sym):
        raise Unsupported(f"dict.update({o!r})")
    def ok(s2):
        loc, lo = get_loc(t), get_loc(o.t)
        has1, has2 = s2.read(HAS, loc), s2.read(HAS, lo)
        map1, map2 = s2.read(MAP, loc), s2.read(MAP, lo)
        kv = z3.Const(I.w.fresh("k"), V)
        s2.write(HAS, loc, z3.Lambda([kv], z3.Or(z3.Select(has1, kv), z3.Select(has2, kv))))
        s2.write(MAP, loc, z3.Lambda([kv], z3.If(z3.Select(has2, kv), z3.Select(map2, kv), z3.Select(map1, kv))))
        n = z3.Int(I.w.fresh("n"))
        s2.fact(n >= s2.read(LEN, loc), n >= s2.read(LEN, lo), n <= s2.read(LEN, loc) + s2.read(LEN, lo))
        s2.write(LEN, loc, n)
        return k(s2, Sym(NONE))
    both = z3.And(I.w.isinstance_term(t, ["builtins.dict"]), I.w.isinstance_term(o.t, ["builtins.dict"]))
    return I.branch(st, both, ok, lambda s2: B.unsupported_path(I, s2, "dict.update on/with a non-dict"))


REF_METHODS["update"] = r_dict_update


def r_dict_pop(I, st, recv, args, kwargs, fr, k):
    t = recv.t
    kt = B.as_sym(I, st, args[0]).t
    def ok(s2):
        loc = get_loc(t)
        has = s2.read(HAS, loc)
        had = z3.Select(has, kt)
        val = z3.Select(s2.read(MAP, loc), kt)
        def present(s3):
            s3.write(HAS, loc, z3.Store(has, kt, z3.BoolVal(False)))
            s3.write(LEN, loc, s3.read(LEN, loc) - 1)
            return k(s3, Sym(val))
        def absent(s3):
            if len(args) > 1:
                return k(s3, args[1])
            return I.raise_(s3, "builtins.KeyError")
        return I.branch(s2, had, present, absent)
    return I.branch(st, I.w.isinstance_term(t, DICTLIKE), ok, lambda s2: B.unsupported_path(I, s2, ".pop() on a non-mapping"))


REF_METHODS["pop"] = r_dict_pop


def r_dict_popitem(I, st, recv, args, kwargs, fr, k):
    """OrderedDict.popitem(last=False): removes and returns the OLDEST entry.  Order is modelled only through the
    most recently inserted key: with two or more entries the oldest one is not the newest one."""
    last = kwargs.get("last", args[0] if args else None)
    if last is None or B.concrete_key(I, st, last) is not False:
        raise Unsupported("popitem() other than popitem(last=False)")
    t = recv.t
    def ok(s2):
        loc = get_loc(t)
        n = s2.read(LEN, loc)
        def nonempty(s3):
            has = s3.read(HAS, loc)
            kk = z3.Const(I.w.fresh("oldest"), V)
            s3.fact(z3.Select(has, kk), z3.Implies(n > 1, kk != s3.read(B.NEWEST, loc)))
            val = z3.Select(s3.read(MAP, loc), kk)
            s3.fact(z3.Implies(is_ref(val), get_loc(val) < s3.frontier), z3.Implies(is_ref(kk), get_loc(kk) < s3.frontier))
            s3.write(HAS, loc, z3.Store(has, kk, z3.BoolVal(False)))
            s3.write(LEN, loc, n - 1)
            B.note(I, "OrderedDict.popitem(last=False): some present key that is not the most recently inserted one (when there are >= 2 entries); full LRU order is not modelled")
            return k(s3, Tup([Sym(kk), Sym(val)]))
        return I.branch(s2, n >= 1, nonempty, lambda s3: I.raise_(s3, "builtins.KeyError", "popitem(): dictionary is empty"))
    return I.branch(st, I.w.isinstance_term(t, ["collections.OrderedDict"]), ok, lambda s2: B.unsupported_path(I, s2, ".popitem(last=False) on a non-OrderedDict"))


REF_METHODS["popitem"] = r_dict_popitem


def r_dict_values(I, st, recv, args, kwargs, fr, k):
    return I.branch(st, I.w.isinstance_term(recv.t, DICTLIKE), lambda s2: k(s2, B.ValuesOf(recv)),
                    lambda s2: B.unsupported_path(I, s2, ".values() on a non-mapping"))


def r_dict_clear(I, st, recv, args, kwargs, fr, k):
    def ok(s2):
        loc = get_loc(recv.t)
        s2.write(HAS, loc, z3.K(V, z3.BoolVal(False)))
        s2.write(LEN, loc, z3.IntVal(0))
        return k(s2, Sym(NONE))
    return I.branch(st, I.w.isinstance_term(recv.t, ["builtins.dict"]), ok, lambda s2: B.unsupported_path(I, s2, ".clear() on a non-dict"))


REF_METHODS["values"] = r_dict_values
REF_METHODS["clear"] = r_dict_clear


def m_translate(I, st, recv, args, kwargs, fr, k):
    """str.translate(table) for a literal {code point: replacement str} table: simultaneous replacement; encoded as a
    chain of replace_all, which is the same thing when no replacement text contains a translated character"""
    tbl = B.concrete_dict(I, st, args[0])
    if tbl is None:
        raise Unsupported("translate with a symbolic table")
    pairs = []
    for key, v in tbl.items():
        rv = B.concrete_key(I, st, v) if isinstance(v, Sym) else B._NOKEY
        if not isinstance(key, int) or not isinstance(rv, str):
            raise Unsupported("translate table entries must be int -> str literals")
        pairs.append((chr(key), rv))
    if any(c in rv for c, _ in pairs for _, rv in pairs):
        raise Unsupported("translate: a replacement contains a translated character")
    s_ = get_s(recv.t)
    for c, rv in pairs:
        a_, b_ = z3.StringVal(c), z3.StringVal(rv)
        s_ = z3.SeqRef(z3.Z3_mk_seq_replace_all(s_.ctx_ref(), s_.as_ast(), a_.as_ast(), b_.as_ast()), s_.ctx)
    return k(st, Sym(mk_str(s_)))


STR_METHODS["translate"] = m_translate
