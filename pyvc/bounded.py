"""Engine-side driver of the bounded stand-ins: shards the native runner over the cores, merges the
counts, turns failures into violation records (with the failing input as replay) or known findings."""
from __future__ import annotations
import json, os, subprocess, sys, time
from concurrent.futures import ThreadPoolExecutor

VERIF = os.path.dirname(os.path.dirname(os.path.abspath(__file__)))
RUNPY = "/venv/bin/python"


def _run(module, tier, seed, shard, n, src, known, extra_args=()):
    env = dict(os.environ, PYVC_SRC=src, PYTHONPATH=src, PYTHONDONTWRITEBYTECODE="1", PYVC_KNOWN=json.dumps(known),
               PYTHONHASHSEED="0")
    p = subprocess.run([RUNPY, os.path.join(VERIF, "bounded", "run_native.py"), module, tier, str(seed), str(shard), str(n), *extra_args],
                       capture_output=True, text=True, env=env, timeout=3600)
    try:
        return p.returncode, json.loads(p.stdout.strip().split("\n")[-1])
    except Exception:
        return 3, {"error": f"no JSON from native runner (exit {p.returncode}): {p.stdout[-500:]} {p.stderr[-1500:]}"}


def runner(module, prop, nshards=14):
    def check(w, tier, seed):
        t0 = time.time()
        kpath = os.path.join(VERIF, "known_findings.json")
        # a recorded finding applies to its bounded case whichever property's check runs that case
        known = [e for e in json.load(open(kpath)) if e.get("status") == "known" and e.get("bounded_case")]
        with ThreadPoolExecutor(nshards) as ex:
            rs = list(ex.map(lambda i: _run(module, tier, seed, i, nshards, w.src, known), range(nshards)))
        out = {"obligations": [], "undecided": [], "errors": [], "bounded": None, "bounded_failures": [], "known_lines": []}
        merged = {}
        for rc, r in rs:
            if "error" in r:
                out["errors"].append(f"bounded/{module}: {r['error']}")
                continue
            for cname, c in r.items():
                m = merged.setdefault(cname, {"evaluations": 0, "distinct_nontrivial": 0, "failures": [], "known_hits": {},
                                              "rule": c["rule"], "bound": c["bound"], "exhaustive": c["exhaustive"],
                                              "functions": c["functions"], "time_s": 0})
                m["evaluations"] += c["evaluations"]; m["distinct_nontrivial"] += c["distinct_nontrivial"]
                m["failures"] += c["failures"]; m["time_s"] = max(m["time_s"], c["time_s"])
                for kid, kh in c["known_hits"].items():
                    e = m["known_hits"].setdefault(kid, {"count": 0, "example": kh["example"], "message": kh["message"]})
                    e["count"] += kh["count"]
        if out["errors"]:
            return out
        cases = []
        for cname, m in sorted(merged.items()):
            cases.append({"case": cname, "evaluations": m["evaluations"], "distinct_nontrivial": m["distinct_nontrivial"],
                          "rule": m["rule"], "bound": m["bound"], "exhaustive_within_bound": m["exhaustive"], "functions": m["functions"],
                          "failures": len(m["failures"]), "known_finding_hits": {k: v["count"] for k, v in m["known_hits"].items()},
                          "time_s": m["time_s"]})
            if m["evaluations"] == 0:
                out["errors"].append(f"bounded/{module}/{cname}: zero evaluations (vacuous)")
            for f in m["failures"][:3]:
                out["bounded_failures"].append({"name": f"{prop}/bounded/{cname}", "module": module, "case": cname,
                                                "input": f["input"], "message": f["message"]})
            for kid, kh in m["known_hits"].items():
                ent = [e for e in known if e["id"] == kid][0]
                out["known_lines"].append(f"KNOWN-FINDING: property={prop} {ent['text']} [bounded case {cname}: {kh['count']} inputs, e.g. {json.dumps(kh['example'])[:120]}]")
        for ent in known:
            if ent.get("bounded_case") not in merged:
                continue
            if not any(ent["id"] in m["known_hits"] for m in merged.values()):
                print(f"note: known finding {ent['id']} did not reproduce in bounded module {module}")
        out["bounded"] = {"module": module, "cases": cases,
                          "evaluations": sum(c["evaluations"] for c in cases),
                          "distinct_nontrivial": sum(c["distinct_nontrivial"] for c in cases),
                          "rule": "; ".join(f"{c['case']}: {c['rule']} [bound: {c['bound']}]" for c in cases),
                          "wall_s": round(time.time() - t0, 2)}
        return out
    return check


def replay_one(rec, src):
    rc, r = _run(rec["module"], "quick", 0, 0, 1, src, [], extra_args=("--one", rec["case"], json.dumps(rec["input"])))
    return rc, r
