from __future__ import annotations
import z3
from .values import *


class Out:
    """Outcome of executing a statement/expression on one path."""
    __slots__ = ("st", "kind", "val")

    def __init__(self, st, kind, val=None):
        self.st, self.kind, self.val = st, kind, val

    def __repr__(self):
        return f"Out({self.kind}, {self.val})"


LEN = "$len"     # Array(Int, Int): length of heap sequences / sizes of containers
ELS = "$el"      # Array(Int, Array(Int, V)): elements of heap sequences
HAS = "$has"     # Array(Int, Array(V, Bool)): membership of heap sets / dict keys
MAP = "$map"     # Array(Int, Array(V, V)): dict values

_SORTS = {
    LEN: z3.ArraySort(z3.IntSort(), z3.IntSort()),
    ELS: z3.ArraySort(z3.IntSort(), IntArr),
    HAS: z3.ArraySort(z3.IntSort(), z3.ArraySort(V, z3.BoolSort())),
    MAP: z3.ArraySort(z3.IntSort(), z3.ArraySort(V, V)),
}


def field_sort(name):
    return _SORTS.get(name, IntArr)


_KEEP = []     # keeps fact terms alive so id() stays unique


class State:
    __slots__ = ("env", "heap", "pc", "frontier", "lheap", "ghost", "events", "A0", "old", "version",
                 "tag", "trace", "exc_stack", "facts", "qfacts", "cm_caller_env")

    def __init__(self):
        self.env = {}
        self.heap = {}
        self.pc = []
        self.frontier = z3.Int("A0")
        self.A0 = self.frontier
        self.lheap = {}
        self.ghost = {}
        self.events = []
        self.old = None            # (heap, frontier, ghost) snapshot at function entry
        self.version = 0
        self.tag = ""
        self.trace = []
        self.exc_stack = []
        self.facts = set()
        self.qfacts = set()
        self.cm_caller_env = None

    def fork(self):
        s = State.__new__(State)
        s.env = dict(self.env)
        s.heap = dict(self.heap)
        s.pc = list(self.pc)
        s.frontier = self.frontier
        s.A0 = self.A0
        s.lheap = {k: (list(v) if isinstance(v, list) else dict(v)) for k, v in self.lheap.items()}
        s.ghost = dict(self.ghost)
        s.events = list(self.events)
        s.old = self.old
        s.version = self.version
        s.tag = self.tag
        s.trace = list(self.trace)
        s.exc_stack = list(self.exc_stack)
        s.facts = set(self.facts)
        s.qfacts = set(self.qfacts)
        s.cm_caller_env = self.cm_caller_env
        return s

    # heap ---------------------------------------------------------------
    def arr(self, name):
        a = self.heap.get(name)
        if a is None:
            a = z3.Const("H_" + name, field_sort(name))      # deterministic name: same initial array on every path
            self.heap[name] = a
        return a

    def read(self, name, loc):
        return z3.Select(self.arr(name), loc)

    def write(self, name, loc, val):
        self.heap[name] = z3.Store(self.arr(name), loc, val)
        self.version += 1

    def assume(self, c):
        self.pc.append(c)

    def fact(self, *cs):
        """An unconditional truth about fresh symbols / heap well-formedness (not a branch condition):
        kept when sibling paths are merged into an If-term."""
        for c in cs:
            self.pc.append(c)
            self.facts.add(id(c))
            if z3.is_quantifier(c):
                self.qfacts.add(id(c))
            _KEEP.append(c)

    def snapshot(self):
        return (dict(self.heap), self.frontier, dict(self.ghost), len(self.events))
