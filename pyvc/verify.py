"""Verify one function of the real source against its sidecar contract; discharge obligations."""
from __future__ import annotations
import ast, time, os, json, subprocess, tempfile
import z3
from .values import *
from .state import *
from .world import World, Unsupported, SpecError
from .engine import Interp, Frame, Oblig, _is_generator
from . import dsl


class FuncResult:
    def __init__(self, q):
        self.q = q
        self.obligs = []
        self.status = "ok"          # ok | undecided | error
        self.reason = ""
        self.paths = 0
        self.exits = {"return": 0, "raise": 0}
        self.requires_sat = None
        self.unreachable = 0


def init_state(I: Interp, c: dsl.Contract, fi):
    st = State()
    st.pc.append(st.A0 >= 0)
    a = fi.node.args
    env = {}
    params = [p.arg for p in a.posonlyargs + a.args + a.kwonlyargs]
    for i, p in enumerate(params):
        v = Sym(z3.Const("arg_" + p, V))
        st.pc.append(z3.Implies(is_ref(v.t), get_loc(v.t) < st.A0))
        if p in c.ldict_params:
            lid = I.w.fresh("D")
            st.lheap[lid] = {key: Sym(z3.Const(f"arg_{p}_{key}", V)) for key in c.ldict_params[p]}
            for vv in st.lheap[lid].values():
                st.pc.append(z3.Implies(is_ref(vv.t), get_loc(vv.t) < st.A0))
            # entries with a concrete tuple shape and symbolic leaves (e.g. a SAN list of n pairs)
            for path_, shape in (getattr(c, "tuple_params", None) or {}).items():
                pp, _, key = path_.partition(".")
                if pp != p:
                    continue
                def build(sh):
                    if isinstance(sh, str):
                        sv_ = Sym(z3.Const("arg_" + sh, V))
                        st.pc.append(z3.Implies(is_ref(sv_.t), get_loc(sv_.t) < st.A0))
                        return sv_
                    return Tup([build(x) for x in sh])
                st.lheap[lid][key] = build(shape)
            env[p] = LDict(lid)
            continue
        ty = c.param_types.get(p)
        if ty is not None and ty.startswith("class:"):
            env[p] = ClassV(I.w.resolve_class(ty[6:]))
            continue
        if ty is None and i == 0 and fi.cls and fi.kind in ("method", "property", "contextmanager") and p == "self":
            ty = fi.cls
        if ty is None and i == 0 and fi.kind == "classmethod":
            env[p] = ClassV(c.param_types.get("$cls", fi.cls))
            continue
        if ty is not None:
            v = I.declare_param(st, p, ty, v)
        env[p] = v
    if a.vararg is not None:
        n = getattr(c, "vararg_len", None)
        if n is None:
            raise Unsupported("*args parameter needs c.vararg_len")
        env[a.vararg.arg] = Tup([Sym(z3.Const(f"arg_{a.vararg.arg}{j}", V)) for j in range(n)])
    if a.kwarg is not None:
        keys = getattr(c, "kwarg_keys", None)
        if keys is None:
            raise Unsupported("**kwargs parameter needs c.kwarg_keys")
        lid = I.w.fresh("D")
        st.lheap[lid] = {key: Sym(z3.Const(f"kw_{key}", V)) for key in keys}
        env[a.kwarg.arg] = LDict(lid)
    st.env = env
    for g, ty in c.ghost_l:
        st.ghost[g] = Sym(z3.Const("ghost_" + g, V))
    return st, params


def verify_function(I: Interp, q: str, prop: str) -> FuncResult:
    w = I.w
    res = FuncResult(q)
    c = I.reg.contracts[q]
    q = c.q
    fi = w.funcs.get(q)
    n0 = len(I.obligs)
    if fi is None:
        res.status, res.reason = "undecided", f"function {q} not found in the source tree"
        return res
    I.cur, I.cur_q, I.prop = c, q, prop
    try:
        st, params = init_state(I, c, fi)
        entry_env = dict(st.env)
        for nm_, ex_ in getattr(c, "site_old", {}).items():
            entry_env[nm_] = I.spec_value(st, ex_, entry_env)     # entry values named for site assertions
        I.cur_entry = entry_env
        for nm, expr in c.requires_l + c.assumes_l:
            st.pc.append(I.spec_bool(st, expr, entry_env, old=st.snapshot()))
        st.old = st.snapshot()
        res.requires_sat = I.feasible(st)
        if not res.requires_sat:
            res.status, res.reason = "error", "precondition unsatisfiable (vacuous contract)"
            return res
        if _is_generator(fi.node) and fi.kind != "contextmanager":
            raise Unsupported("generator function")
        fr = Frame(fi.module, fi.cls, q)
        outs = I.exec_block(st, fi.node.body, fr)
        for o in outs:
            if o.kind not in ("normal", "return", "raise"):
                raise Unsupported(f"outcome {o.kind} at function level")
            res.paths += 1
            post_obligations(I, c, o, entry_env, fi)
            res.exits["raise" if o.kind == "raise" else "return"] += 1
        if res.paths == 0:
            res.status, res.reason = "error", "no path reaches an exit"
        dead = I.stats.get("dead_calls") or []
        if dead:
            res.status, res.reason = "error", "vacuity: a call by contract had no feasible outcome (contradictory callee contract for this state): " + "; ".join(dead[:3])
            I.stats["dead_calls"] = []
    except Unsupported as e:
        res.status, res.reason = "undecided", f"unsupported: {e}"
        del I.obligs[n0:]
    except SpecError as e:
        res.status, res.reason = "error", f"spec error: {e}"
        del I.obligs[n0:]
    finally:
        I.cur, I.cur_q, I.cur_entry = None, None, None
    res.obligs = I.obligs[n0:]
    return res


def post_obligations(I, c, o, entry_env, fi):
    st = o.st
    env = dict(entry_env)
    if o.kind in ("normal", "return"):
        result = o.val if o.val is not None else Sym(NONE)
        env["result"] = result
        for nm, expr in c.ensures_l:
            I.oblige(st, f"post:{nm}", I.spec_bool(st, expr, env, old=st.old), kind="post", extra=_exprs(st, entry_env, result), clause=expr)
        for r in c.raises_l:
            if r.iff and r.when is not None:
                nm = r.name or "|".join(x.split(".")[-1] for x in r.classes)
                I.oblige(st, f"must-raise:{nm}", z3.Not(I.spec_bool_old(st, r.when, entry_env)), kind="post",
                         extra=_exprs(st, entry_env, result))
    else:
        exc = o.val
        env["exc"] = exc
        if not c.raises_any:
            alts = []
            for r in c.raises_l:
                classes = [I.w.resolve_class(x) for x in r.classes]
                a = I.w.isinstance_term(exc.t, classes)
                if r.when is not None:
                    a = z3.And(a, I.spec_bool_old(st, r.when, entry_env))
                alts.append(a)
            I.oblige(st, "raises-only", z3.Or(alts) if alts else z3.BoolVal(False), kind="raises", extra=_exprs(st, entry_env, None, exc), site_env={"exc": exc})
        for r in c.raises_l:
            if r.ensures is not None:
                classes = [I.w.resolve_class(x) for x in r.classes]
                guard = I.w.isinstance_term(exc.t, classes)
                if r.when is not None:
                    guard = z3.And(guard, I.spec_bool_old(st, r.when, entry_env))
                if I.feasible(st, guard):
                    s2 = st.fork(); s2.pc.append(guard)
                    nm = r.name or "|".join(x.split(".")[-1] for x in r.classes)
                    I.oblige(s2, f"exc-post:{nm}", I.spec_bool(s2, r.ensures, env, old=st.old), kind="excpost", extra=_exprs(st, entry_env, None, exc))
        for nm, expr in c.exc_ensures_l:
            I.oblige(st, f"exc-post:{nm}", I.spec_bool(st, expr, env, old=st.old), kind="excpost", extra=_exprs(st, entry_env, None, exc))
    if c.modifies_l is not None:
        frame_obligations(I, c, st, entry_env)


def _exprs(st, entry_env, result=None, exc=None):
    d = {"args": {k: v.t for k, v in entry_env.items() if isinstance(v, Sym)}}
    if isinstance(result, Sym):
        d["result"] = result.t
    if isinstance(exc, Sym):
        d["exc_cls"] = cls_of(get_loc(exc.t))
    return d


def frame_obligations(I, c, st, entry_env):
    """Every heap location allocated before entry and not named by `modifies` is unchanged."""
    old_heap = st.old[0]
    allowed = {}       # field -> list of loc terms | '*'
    for m in c.modifies_l:
        if m.startswith("ghost."):
            continue
        if m == "*":
            return
        obj_expr, _, name = m.rpartition(".")
        if obj_expr == "*":
            allowed[name] = "*"
            continue
        ov = I.spec_value(st, obj_expr, entry_env, old=st.old)
        # modifies targets are evaluated in the entry state
        s0 = st.fork(); s0.heap = dict(old_heap)
        ov = I.spec_value(s0, obj_expr, entry_env, old=st.old)
        if allowed.get(name) != "*":
            allowed.setdefault(name, []).append(get_loc(ov.t))
    goals = []
    l = z3.Int(I.w.fresh("frame_l"))
    for name, arr in st.heap.items():
        if name.startswith("$"):
            pass
        before = old_heap.get(name)
        if before is None:
            before = z3.Const("H_" + name, field_sort(name))
        if before is arr or z3.eq(before, arr):
            continue
        al = allowed.get(name)
        if al == "*":
            continue
        cond = [l >= 0, l < st.A0] + [l != x for x in (al or [])]
        goals.append((name, z3.Implies(z3.And(cond), z3.Select(arr, l) == z3.Select(before, l))))
    if goals:
        # one obligation per path: nothing outside `modifies` changed (fields listed in the name of a failure's model)
        I.oblige(st, "frame", z3.And([g for _, g in goals]), kind="frame", clause="unchanged outside modifies: " + ", ".join(n for n, _ in goals))


# ------------------------------------------------------------------------------ discharge
def _check(pc, goal, timeout_ms, seed):
    s = z3.Solver()
    s.set("timeout", timeout_ms)
    if seed:
        s.set("random_seed", seed)
    s.add(*pc)
    s.add(z3.Not(goal))
    return s, s.check()


def discharge(ob: Oblig, timeout_ms=10000, seed=0, use_cvc5=True):
    """Returns dict(verdict= 'unsat'|'sat'|'unknown', backend, time_s, model?).
    Stage 1 proves from the quantifier-free hypotheses only (fewer hypotheses: still a proof); stage 2
    adds the quantified facts (sequence concatenation, comprehension definitions) when stage 1 found a
    candidate counter-model."""
    t0 = time.time()
    from .engine import _hard
    qf = [c for c in ob.pc if not z3.is_quantifier(c)]
    quant = len(qf) != len(ob.pc)
    easy = [c for c in qf if not _hard(c)]
    out = {"backend": "z3", "stage": 0}
    if len(easy) != len(qf) and not _hard(ob.goal):
        # stage 0: without the string/regex hypotheses (fewer hypotheses: still a proof)
        s, r = _check(easy, ob.goal, min(timeout_ms, 3000), seed)
        if r == z3.unsat:
            out["time_s"] = round(time.time() - t0, 4)
            out["verdict"] = "unsat"
            return out
    s, r = _check(qf, ob.goal, timeout_ms, seed)
    out["stage"] = 1
    if r == z3.sat and quant:
        cand = extract_model(s.model(), ob)
        s, r = _check(ob.pc, ob.goal, timeout_ms, seed)
        out["stage"] = 2
        if r == z3.unknown:
            out["candidate_model"] = cand
    out["time_s"] = round(time.time() - t0, 4)
    if r == z3.unsat:
        out["verdict"] = "unsat"
        return out
    if r == z3.sat:
        out["verdict"] = "sat"
        out["model"] = extract_model(s.model(), ob)
        return out
    out["verdict"] = "unknown"
    out["reason"] = s.reason_unknown()
    # case split over the disjunctions introduced by state merging (each case is one original path)
    sp = _case_split(ob, timeout_ms, seed)
    if sp is not None:
        out.update(sp)
        out["time_s"] = round(time.time() - t0, 4)
        return out
    if use_cvc5:
        r2 = cvc5_check(s, timeout_ms)
        out["cvc5"] = r2
        if r2 == "unsat":
            out["verdict"] = "unsat"; out["backend"] = "cvc5"
        out["time_s"] = round(time.time() - t0, 4)
    if out["verdict"] == "unknown":
        # counter-model search by fixing the class of one object (sound for `sat`: an added equation can only lose models)
        # last resort for an undecided obligation: one long run (on the unchanged tree nothing gets here; after a change a
        # genuine counter-model of a large function can need more than the per-obligation budget, observed 8-20 s)
        s_, r_ = _check(ob.pc, ob.goal, 6 * timeout_ms, seed + 1)
        if r_ == z3.sat:
            out.update({"verdict": "sat", "model": extract_model(s_.model(), ob), "stage": "long-retry", "backend": "z3"})
        elif r_ == z3.unsat:
            out.update({"verdict": "unsat", "stage": "long-retry", "backend": "z3"})
        else:
            cs = _class_enum(ob, timeout_ms, seed)
            if cs is not None:
                out.update(cs)
        out["time_s"] = round(time.time() - t0, 4)
    return out


def _class_enum(ob, timeout_ms, seed):
    """The solver wanders in the class-interval disjunctions of exception objects: try `cls_of(x) == c` for every class
    id c that the formula itself compares cls_of(x) with (interval end points and their neighbours)."""
    terms = {}
    seen = set()
    stack = list(ob.pc) + [ob.goal]
    while stack:
        x = stack.pop()
        if x.get_id() in seen:
            continue
        seen.add(x.get_id())
        if z3.is_quantifier(x):
            stack.append(x.body()); continue
        if not z3.is_app(x):
            continue
        if x.decl().kind() in (z3.Z3_OP_LE, z3.Z3_OP_GE, z3.Z3_OP_EQ, z3.Z3_OP_LT, z3.Z3_OP_GT) and x.num_args() == 2:
            a, b = x.arg(0), x.arg(1)
            for u, v in ((a, b), (b, a)):
                if z3.is_app(u) and u.decl().name() == "cls_of" and z3.is_int_value(v):
                    ent = terms.setdefault(u.get_id(), (u, set()))
                    n = v.as_long()
                    ent[1].update((n - 1, n, n + 1))
        stack.extend(x.children())
    cands = sorted(terms.values(), key=lambda e: -len(e[1]))[:3]
    t_end = time.time() + 3.0 * timeout_ms / 1000
    for u, ids in cands:
        if len(ids) < 6:
            continue
        for c in sorted(ids):
            if time.time() > t_end:
                return None
            s_, r_ = _check(list(ob.pc) + [u == c], ob.goal, min(timeout_ms, 2500), seed)
            if r_ == z3.sat:
                return {"verdict": "sat", "model": extract_model(s_.model(), ob), "stage": "class-enumeration", "backend": "z3"}
    return None


def _case_split(ob, timeout_ms, seed, max_cases=24):
    from .engine import MERGE_ORS
    ors = [c for c in ob.pc if c.get_id() in MERGE_ORS and z3.is_or(c)]
    if not ors:
        return None
    # split on the latest merges first (they are the ones closest to the obligation)
    chosen, n = [], 1
    for c in reversed(ors):
        k_ = c.num_args()
        if n * k_ > max_cases:
            break
        chosen.append(c); n *= k_
    if not chosen:
        return None
    import itertools
    all_unsat = True
    for combo in itertools.product(*[c.children() for c in chosen]):
        s_, r_ = _check(list(ob.pc) + list(combo), ob.goal, timeout_ms, seed)
        if r_ == z3.sat:
            return {"verdict": "sat", "model": extract_model(s_.model(), ob), "stage": "case-split", "backend": "z3"}
        if r_ != z3.unsat:
            all_unsat = False
    if all_unsat:
        return {"verdict": "unsat", "stage": "case-split", "backend": "z3"}
    return None


def cvc5_check(solver, timeout_ms):
    smt = solver.to_smt2()
    smt = "(set-logic ALL)\n" + smt
    with tempfile.NamedTemporaryFile("w", suffix=".smt2", delete=False, dir=os.environ.get("TMPDIR", "/tmp")) as f:
        f.write(smt)
        path = f.name
    try:
        p = subprocess.run(["/usr/bin/cvc5", "--strings-exp", f"--tlimit={timeout_ms}", path], capture_output=True, text=True,
                           timeout=timeout_ms / 1000 + 5)
        ans = p.stdout.strip().split("\n")[0] if p.stdout.strip() else "error"
        return ans if ans in ("sat", "unsat", "unknown") else "error:" + (p.stderr or p.stdout)[:200]
    except subprocess.TimeoutExpired:
        return "timeout"
    finally:
        os.unlink(path)


def pyval(model, t):
    """Python value of a V term under a model (references become {'ref': n, 'cls': id})."""
    v = model.eval(t, model_completion=True)
    try:
        name = v.decl().name()
    except Exception:
        return str(v)
    if name == "none": return None
    if name == "bool": return z3.is_true(v.arg(0))
    if name == "int": return v.arg(0).as_long()
    if name == "flt":
        a = v.arg(0)
        try:
            return float(a.as_fraction())
        except Exception:
            return str(a)
    if name == "str": return v.arg(0).as_string()
    if name == "byt": return {"bytes": v.arg(0).as_string()}
    if name == "ref":
        loc = v.arg(0)
        c = model.eval(cls_of(loc), model_completion=True)
        return {"ref": loc.as_long(), "cls": c.as_long()}
    return str(v)


def extract_model(m, ob):
    out = {}
    ex = ob.extra or {}
    heap0 = ex.get("heap0") or {}
    def deep(v, depth=0):
        if isinstance(v, dict) and "ref" in v and v["ref"] >= 0 and depth < 1:
            fields = {}
            for f, arr in heap0.items():
                try:
                    fields[f] = deep(pyval(m, z3.Select(arr, z3.IntVal(v["ref"]))), depth + 1)
                except Exception:
                    pass
            v = dict(v); v["fields"] = fields
        return v
    for k, t in (ex.get("args") or {}).items():
        try:
            out[k] = deep(pyval(m, t))
        except Exception as e:      # noqa
            out[k] = f"<{e}>"
    for g, t in (ex.get("ghost0") or {}).items():
        try: out["ghost." + g] = pyval(m, t)
        except Exception: pass
    if "result" in ex:
        try: out["$result"] = pyval(m, ex["result"])
        except Exception: pass
    if "exc_cls" in ex:
        try: out["$exc_cls"] = m.eval(ex["exc_cls"], model_completion=True).as_long()
        except Exception: pass
    return out
