"""pyvc executor: symbolic execution of the *real* function ASTs against sidecar contracts.

Execution is path-forking (one solver query per obligation per path).  Expressions are evaluated
in continuation-passing style inside one statement; statements return lists of outcomes.
Anything outside the supported subset raises Unsupported => the function is UNDECIDED.
"""
from __future__ import annotations
import ast, sys, os
import z3
from .values import *
from .state import *
from .world import World, Unsupported, SpecError, FuncInfo
from . import dsl

sys.setrecursionlimit(20000)


class Frame:
    __slots__ = ("module", "cls", "q", "closure", "spec", "depth", "specenv", "in_contract", "cm")

    def __init__(self, module, cls=None, q=None, closure=None, spec=False, depth=0, specenv=None):
        self.module, self.cls, self.q, self.closure, self.spec, self.depth = module, cls, q, closure, spec, depth
        self.specenv = specenv or {}
        self.cm = None


class Oblig:
    __slots__ = ("name", "pc", "goal", "trace", "func", "kind", "extra", "ctx", "clause")

    def __init__(self, name, pc, goal, trace, func, kind, extra=None, ctx=None, clause=None):
        self.name, self.pc, self.goal, self.trace, self.func, self.kind, self.extra = name, pc, goal, trace, func, kind, extra
        self.ctx = ctx
        self.clause = clause


FEAS_TIMEOUT_MS = int(os.environ.get('PYVC_FEAS_MS', '600'))
MERGE_IF = True
MERGE_ORS = set()       # ids of the case-disjunctions introduced by state merging (used for case splits on `unknown`)
LAZY_SPEC = False
_ALIVE = []
MAX_INLINE_DEPTH = 14


def _val(k):
    return lambda st, v: [Out(st, "val", v)]


class Interp:
    def __init__(self, world: World, registry: dsl.Registry):
        self.w = world
        self.reg = registry
        self.obligs: list[Oblig] = []
        self.images = {}      # image sets built from comprehensions over str-keyed mappings (see builtins._image_set)
        self.cur = None            # contract under verification
        self.cur_q = None
        self.prop = "?"
        self.stats = {"feas_checks": 0, "paths": 0, "forks": 0, "inlined": set(), "by_contract": set(),
                      "assumed_used": set(), "builtins_used": set()}
        self.loop_counter = 0
        from . import builtins as B
        self.B = B
        self._feas_solver = None
        self._inc = None
        self.lazy = 0
        self.cur_entry = None

    # ------------------------------------------------------------------ util
    def fresh_v(self, base="v", hint=None):
        return Sym(z3.Const(self.w.fresh(base), V), hint)

    def fresh_int(self, base="n"):
        return z3.Int(self.w.fresh(base))

    def feasible(self, st, cond=None):
        """Is pc (and cond) satisfiable?  `unknown` counts as feasible (sound: paths are only dropped on unsat).
        Incremental: one push level per path-condition conjunct, shared along the DFS of paths."""
        self.stats["feas_checks"] += 1
        pc = [c for c in st.pc if id(c) not in st.qfacts and not _hard(c)]   # quantified / regex facts left out (weakening is sound here)
        if cond is not None and _hard(cond):
            return True
        if self._inc is None:
            sv = z3.Solver()
            sv.set("timeout", FEAS_TIMEOUT_MS)
            self._inc = [sv, []]
        sv, asserted = self._inc
        L = 0
        n = min(len(asserted), len(pc))
        while L < n and asserted[L] == id(pc[L]):
            L += 1
        if len(asserted) > L:
            sv.pop(len(asserted) - L)
            del asserted[L:]
        for c in pc[L:]:
            sv.push()
            sv.add(c)
            asserted.append(id(c))
            _ALIVE.append(c)
        sax = self.singleton_axioms()
        if cond is None and not sax:
            return sv.check() != z3.unsat
        sv.push()
        sv.add(*sax)
        if cond is not None:
            sv.add(cond)
        import time as _t
        t0 = _t.time()
        r = sv.check()
        if r == z3.unknown:
            # the incremental core gives up early on some array/datatype mixes: retry once from scratch
            s2 = z3.Solver()
            s2.set("timeout", 4 * FEAS_TIMEOUT_MS)
            s2.add(*pc); s2.add(*sax)
            if cond is not None:
                s2.add(cond)
            r = s2.check()
            self.stats["feas_retries"] = self.stats.get("feas_retries", 0) + 1
        dt = _t.time() - t0
        if dt > 0.25:
            self._inc = None          # a long-lived incremental solver degrades: start a new one
            self.stats["feas_resets"] = self.stats.get("feas_resets", 0) + 1
            sv = None
        self.stats["feas_time"] = self.stats.get("feas_time", 0.0) + dt
        if dt > 1.0 and os.environ.get("PYVC_SLOW"):
            print(f"[slow feasibility {dt:.1f}s -> {r}] cond={str(cond)[:300]} trace={st.trace[-4:]}", flush=True)
        if dt > 0.5 and os.environ.get("PYVC_DUMP") and not getattr(self, "_dumped", False):
            self._dumped = True
            open(os.environ["PYVC_DUMP"], "w").write(sv.to_smt2())
        if dt > 1.0 and os.environ.get("PYVC_TRACE"):
            print(f"[slow feasibility {dt:.1f}s r={r} pc={len(pc)} trace={st.trace[-3:]}]", flush=True)
        if sv is not None:
            sv.pop()
        return r != z3.unsat

    def branch(self, st, cond, kt, kf):
        cond = z3.simplify(cond)
        if z3.is_true(cond):
            return kt(st)
        if z3.is_false(cond):
            return kf(st)
        ids = {c.get_id() for c in st.pc}
        if cond.get_id() in ids:
            return kt(st)
        ncond = z3.simplify(z3.Not(cond))
        if ncond.get_id() in ids:
            return kf(st)
        if self.lazy and LAZY_SPEC:
            # spec mode: explore both sides without solver calls; infeasible raise-outcomes are
            # filtered where the spec value is collected
            s1 = st.fork(); s1.pc.append(cond)
            s2 = st.fork(); s2.pc.append(z3.Not(cond))
            return kt(s1) + kf(s2)
        ft = self.feasible(st, cond)
        ff = True if not ft else self.feasible(st, z3.Not(cond))
        outs = []
        if ft and ff:
            self.stats["forks"] += 1
            s1 = st.fork(); s1.pc.append(cond)
            outs += kt(s1)
            s2 = st.fork(); s2.pc.append(z3.Not(cond))
            outs += kf(s2)
        elif ft:
            st.pc.append(cond)
            outs += kt(st)
        elif ff:
            st.pc.append(z3.Not(cond))
            outs += kf(st)
        elif os.environ.get("PYVC_TRACE"):
            print(f"[dead path: neither branch feasible] trace={st.trace[-5:]}", flush=True)
        return outs

    def oblige(self, st, name, goal, kind="post", extra=None, clause=None, site_env=None):
        if self.cur is not None and self.cur.tags:
            parts = name.split(":")
            tg = None
            for i_ in range(len(parts)):
                tg = tg or self.cur.tags.get(":".join(parts[i_:]))
            if tg is not None and self.prop not in tg:
                return
        if extra is None and self.cur_entry is not None:
            extra = {"args": {k: v.t for k, v in self.cur_entry.items() if isinstance(v, Sym)}}
        if extra is not None:
            extra["heap0"] = {f: z3.Const("H_" + f, field_sort(f)) for f in list(st.heap) if not f.startswith("$")}
            extra["ghost0"] = {g: v.t for g, v in ((st.old[2] if st.old else {}) or {}).items() if isinstance(v, Sym)}
            extra["A0"] = st.A0
        ctx = (st.fork(), self.cur_entry, site_env) if self.cur_entry is not None else None
        self.obligs.append(Oblig(f"{self.prop}/{self.cur_short()}/{name}", self.singleton_axioms() + list(st.pc), goal, list(st.trace), self.cur_q, kind, extra, ctx, clause))

    def cur_short(self):
        q = self.cur_q or "?"
        if self.cur is not None and self.cur.variant:
            return self._short(q) + "@" + self.cur.variant
        return self._short(q)

    def _short(self, q):
        parts = q.split(".")
        # Class.method or function
        if len(parts) >= 2 and parts[-2][:1].isupper():
            return ".".join(parts[-2:])
        return parts[-1]

    # -------------------------------------------------------- value helpers
    def term(self, st, v):
        """V term of a Value (allocating heap structure for concrete-shape tuples if needed)."""
        if isinstance(v, Sym):
            return v.t
        if v is None:
            return NONE
        if isinstance(v, Tup):
            return self.alloc_seq(st, "builtins.tuple", [self.term(st, x) for x in v.items])
        if isinstance(v, ClassV):
            loc = self.w.class_loc(v.q)
            return mk_ref(z3.IntVal(loc))
        if isinstance(v, LSet):
            return self.alloc_set(st, v)
        if isinstance(v, (FuncV, BuiltinV)):
            q = v.q if isinstance(v, FuncV) else v.name
            return mk_ref(z3.IntVal(self.w.singleton_loc("func:" + q)))
        if isinstance(v, LList):
            # escaping local list: materialise as a heap list (later local mutation would be unsound => freeze)
            items = st.lheap[v.id]
            st.lheap[v.id] = tuple(items) if False else items
            return self.alloc_seq(st, "builtins.list", [self.term(st, x) for x in items])
        raise Unsupported(f"value {v!r} cannot be stored symbolically")

    def alloc(self, st, clsq):
        # every allocation gets its own location symbol (>= the frontier): facts about it stay true when
        # sibling paths are merged (a shared counter value would be given two classes by two branches)
        loc = z3.Int(self.w.fresh("a"))
        st.fact(loc >= st.frontier, cls_of(loc) == self.w.cid(clsq))
        st.frontier = loc + 1
        st.version += 1
        return loc

    def alloc_seq(self, st, clsq, terms):
        loc = self.alloc(st, clsq)
        arr = z3.K(z3.IntSort(), NONE)
        for i, t in enumerate(terms):
            arr = z3.Store(arr, i, t)
        st.write(ELS, loc, arr)
        st.write(LEN, loc, z3.IntVal(len(terms)))
        return mk_ref(loc)

    def alloc_set(self, st, lset):
        if lset.frozen:
            # constant frozensets are interned by content: the same constant denotes the same object everywhere
            li = self.w.singleton_loc("frozenset:" + repr(sorted(lset.items, key=repr)))
            self.w.singleton_cls[li] = "builtins.frozenset"
            loc = z3.IntVal(li)
        else:
            loc = self.alloc(st, "builtins.set")
        arr = z3.K(V, z3.BoolVal(False))
        for it in sorted(lset.items, key=repr):
            arr = z3.Store(arr, self.const_term(it), z3.BoolVal(True))
        st.write(HAS, loc, arr)
        st.write(LEN, loc, z3.IntVal(len(lset.items)))
        return mk_ref(loc)

    def const_term(self, c):
        if c is None: return NONE
        if isinstance(c, bool): return mk_bool(z3.BoolVal(c))
        if isinstance(c, int): return pyint(c)
        if isinstance(c, float): return pyfloat(c)
        if isinstance(c, str): return pystr(c)
        if isinstance(c, bytes): return pybytes(c)
        raise Unsupported(f"constant {c!r}")

    def const_val(self, c):
        if isinstance(c, tuple):
            return Tup([self.const_val(x) for x in c])
        if isinstance(c, frozenset):
            return LSet(c)
        return Sym(self.const_term(c))

    def from_fact(self, f, st=None):
        k = f["k"]
        if k == "none": return Sym(NONE)
        if k == "bool": return Sym(mk_bool(z3.BoolVal(f["v"])))
        if k == "int": return Sym(pyint(f["v"]))
        if k == "float": return Sym(pyfloat(float(f["v"])))
        if k == "str": return Sym(pystr(f["v"]))
        if k == "bytes": return Sym(pybytes(f["v"].encode("latin-1")))
        if k in ("tuple", "list"):
            return Tup([self.from_fact(x) for x in f["items"]])
        if k in ("frozenset", "set"):
            items = []
            for x in f["items"]:
                if x["k"] in ("str", "int", "bool"):
                    items.append(x["v"])
                elif x["k"] == "bytes":
                    items.append(x["v"].encode("latin-1"))
                else:
                    raise Unsupported("set constant with non-primitive items")
            return LSet(items, frozen=(k == "frozenset"))
        if k == "dict":
            raise Unsupported("module-level dict constant (add support where needed)")
        if k == "class": return ClassV(f["q"])
        if k == "module": return ModV(f["name"])
        if k == "function":
            q = f["q"]
            if q in self.w.funcs:
                fi = self.w.funcs[q]
                return FuncV(q, fi.node, fi.module, fi.cls, kind=fi.kind)
            return BuiltinV(q)
        if k == "regex": return RegexV(f)
        if k == "singleton":
            loc = self.w.singleton_loc(f["name"])
            if f.get("cls") in self.w.class_ids and loc not in self.w.singleton_cls:
                self.w.singleton_cls[loc] = f["cls"]
            return Sym(mk_ref(z3.IntVal(loc)), hint=f.get("cls"))
        raise Unsupported(f"fact kind {k}")

    def singleton_axioms(self, st=None):
        """cls_of facts for the fixed locations (module singletons) referenced so far."""
        n = len(self.w.singleton_cls)
        if getattr(self, "_sing_n", -1) != n:
            self._sing_ax = [cls_of(z3.IntVal(loc)) == self.w.cid(q) for loc, q in self.w.singleton_cls.items()]
            self._sing_n = n
            _ALIVE.extend(self._sing_ax)
        return self._sing_ax

    def truthy(self, st, v):
        """z3 Bool: Python truthiness of a Value."""
        if isinstance(v, Sym):
            t = v.t
            if z3.is_app(t) and t.decl().name() == "bool":
                return t.arg(0)
            if z3.is_app(t) and t.decl().name() == "none":
                return z3.BoolVal(False)
            sized = self.sized_ref_truthy(st, t)
            if v.hint and not v.hint.startswith("$") and v.hint not in ("builtins.str", "builtins.bytes", "builtins.int", "builtins.bool", "builtins.float"):
                # a value of declared class (or None): no number / string cases in the formula
                return z3.simplify(z3.If(is_none(t), False, sized))
            return z3.simplify(z3.If(is_none(t), False,
                   z3.If(is_bool(t), get_b(t),
                   z3.If(is_int(t), get_i(t) != 0,
                   z3.If(is_flt(t), get_r(t) != 0,
                   z3.If(is_str(t), get_s(t) != z3.StringVal(""),
                   z3.If(is_byt(t), get_y(t) != z3.StringVal(""), sized)))))))
        if isinstance(v, Tup): return z3.BoolVal(len(v.items) > 0)
        if isinstance(v, (LList, LDict)): return z3.BoolVal(len(st.lheap[v.id]) > 0)
        if isinstance(v, LSet): return z3.BoolVal(len(v.items) > 0)
        return z3.BoolVal(True)

    SIZED = ["builtins.list", "builtins.tuple", "builtins.dict", "builtins.set", "builtins.frozenset",
             "collections.deque", "collections.OrderedDict"]

    def sized_ref_truthy(self, st, t):
        c = cls_of(get_loc(t))
        base = z3.If(self.w.cls_in(c, self.SIZED), st.read(LEN, get_loc(t)) > 0, z3.BoolVal(True))
        # user classes with __len__ registered by the sidecar: (class, lambda st, loc -> Int)
        for clsq, fn in self.B.USER_LEN.items():
            if clsq in self.w.subclasses:
                base = z3.If(self.w.cls_in(c, [clsq]), fn(self, st, get_loc(t)) > 0, base)
        return base

    def mk_exc(self, st, clsq, args=()):
        clsq = self.w.resolve_class(clsq)
        loc = self.alloc(st, clsq)
        return Sym(mk_ref(loc), hint=clsq)

    def raise_(self, st, clsq, note=""):
        st.trace.append(f"raise {clsq.split('.')[-1]} {note}")
        return [Out(st, "raise", self.mk_exc(st, clsq))]

    # ------------------------------------------------------------ statements
    def exec_block(self, st, stmts, fr):
        outs = [Out(st, "normal")]
        for s in stmts:
            nxt = []
            for o in outs:
                if o.kind == "normal":
                    nxt += self.exec_stmt(o.st, s, fr)
                else:
                    nxt.append(o)
            outs = nxt
            if not outs:
                break
        return outs

    def exec_stmt(self, st, s, fr):
        m = getattr(self, "x_" + type(s).__name__, None)
        if m is None:
            raise Unsupported(f"statement {type(s).__name__} at line {getattr(s, 'lineno', '?')}")
        return m(st, s, fr)

    def x_Pass(self, st, s, fr): return [Out(st, "normal")]
    def x_Break(self, st, s, fr): return [Out(st, "break")]
    def x_Continue(self, st, s, fr): return [Out(st, "continue")]
    def x_Global(self, st, s, fr): return [Out(st, "normal")]
    def x_Nonlocal(self, st, s, fr): raise Unsupported("nonlocal")
    def x_Import(self, st, s, fr): raise Unsupported("import inside function")

    def x_ImportFrom(self, st, s, fr):
        # local imports (e.g. `from .util.ssl_ import ...` inside a function): resolve through the facts table
        base = fr.module.split(".")
        level = s.level
        pkg = base[: len(base) - level] if level else []
        # a module file `a.b.c` importing `.x` refers to package a.b
        modname = ".".join(pkg + ([s.module] if s.module else []))
        for a in s.names:
            tgt = a.asname or a.name
            full = modname + "." + a.name
            if full in self.w.facts["modules"]:
                st.env[tgt] = ModV(full)
            elif modname in self.w.facts["modules"] and a.name in self.w.facts["modules"][modname]["globals"]:
                st.env[tgt] = self.from_fact(self.w.facts["modules"][modname]["globals"][a.name])
            else:
                st.env[tgt] = ModV(full)
        return [Out(st, "normal")]

    def x_Expr(self, st, s, fr):
        if isinstance(s.value, ast.Constant):
            return [Out(st, "normal")]         # docstring
        if isinstance(s.value, (ast.Yield, ast.YieldFrom)):
            return self.x_yield(st, s.value, fr)
        return self.ev(st, s.value, fr, lambda st2, v: [Out(st2, "normal")])

    def x_Return(self, st, s, fr):
        if s.value is None:
            return [Out(st, "return", Sym(NONE))]
        return self.ev(st, s.value, fr, lambda st2, v: [Out(st2, "return", v)])

    def x_Assign(self, st, s, fr):
        def k(st2, v):
            outs = [Out(st2, "normal")]
            for tgt in s.targets:
                nxt = []
                for o in outs:
                    nxt += self.assign(o.st, tgt, v, fr) if o.kind == "normal" else [o]
                outs = nxt
            return outs
        return self.ev(st, s.value, fr, k)

    def x_AnnAssign(self, st, s, fr):
        if s.value is None:
            return [Out(st, "normal")]
        return self.ev(st, s.value, fr, lambda st2, v: self.assign(st2, s.target, v, fr))

    def x_AugAssign(self, st, s, fr):
        load = ast.copy_location(ast.BinOp(left=_as_load(s.target), op=s.op, right=s.value), s)
        return self.ev(st, load, fr, lambda st2, v: self.assign(st2, s.target, v, fr))

    def x_Delete(self, st, s, fr):
        outs = [Out(st, "normal")]
        for t in s.targets:
            if isinstance(t, ast.Name):
                for o in outs:
                    o.st.env.pop(t.id, None)
            elif isinstance(t, ast.Subscript):
                nxt = []
                for o in outs:
                    if o.kind != "normal":
                        nxt.append(o); continue
                    nxt += self.ev(o.st, t.value, fr, lambda s2, c, t=t: self.ev(s2, t.slice, fr,
                                   lambda s3, key: self.B.delitem(self, s3, c, key, fr, lambda s4, _v: [Out(s4, "normal")])))
                outs = nxt
            else:
                raise Unsupported("del of attribute")
        return outs

    def assign(self, st, tgt, v, fr):
        if isinstance(tgt, ast.Name):
            st.env[tgt.id] = v
            st.version += 1
            return [Out(st, "normal")]
        if isinstance(tgt, ast.Attribute):
            return self.ev(st, tgt.value, fr, lambda st2, obj: self.setattr_value(st2, obj, tgt.attr, v, fr, lambda s3, _: [Out(s3, "normal")]))
        if isinstance(tgt, (ast.Tuple, ast.List)):
            return self.unpack(st, v, len(tgt.elts), fr, lambda st2, items: self._assign_many(st2, tgt.elts, items, fr))
        if isinstance(tgt, ast.Subscript):
            return self.ev(st, tgt.value, fr, lambda s2, c: self.ev(s2, tgt.slice, fr,
                           lambda s3, key: self.B.setitem(self, s3, c, key, v, fr, lambda s4, _v: [Out(s4, "normal")])))
        raise Unsupported(f"assignment target {type(tgt).__name__}")

    def _assign_many(self, st, elts, items, fr):
        outs = [Out(st, "normal")]
        for e, it in zip(elts, items):
            nxt = []
            for o in outs:
                nxt += self.assign(o.st, e, it, fr) if o.kind == "normal" else [o]
            outs = nxt
        return outs

    def unpack(self, st, v, n, fr, k):
        if isinstance(v, Tup):
            if len(v.items) != n:
                return self.raise_(st, "builtins.ValueError", "unpack arity")
            return k(st, v.items)
        if isinstance(v, LList):
            items = st.lheap[v.id]
            if len(items) != n:
                return self.raise_(st, "builtins.ValueError", "unpack arity")
            return k(st, list(items))
        if isinstance(v, Sym):
            # heap sequence of symbolic length
            t = v.t
            def ok(s2):
                loc = get_loc(t)
                ln = s2.read(LEN, loc)
                def good(s3):
                    arr = s3.read(ELS, loc)
                    return k(s3, [Sym(z3.Select(arr, i)) for i in range(n)])
                return self.branch(s2, ln == n, good, lambda s3: self.raise_(s3, "builtins.ValueError", "unpack arity"))
            return self.branch(st, self.is_seq(t), ok, lambda s2: self.raise_(s2, "builtins.TypeError", "unpack non-sequence"))
        raise Unsupported(f"unpack of {v!r}")

    def is_seq(self, t):
        return self.w.isinstance_term(t, ["builtins.tuple", "builtins.list"])

    def x_If(self, st, s, fr):
        # `if typing.TYPE_CHECKING:` blocks are dropped (extraction rule)
        if _is_type_checking(s.test):
            return self.exec_block(st, s.orelse, fr)
        npc = len(st.pc)
        base_ids = [id(c) for c in st.pc]
        outs = self.ev_cond(st, s.test, fr,
                            lambda s2: self.exec_block(s2, s.body, fr),
                            lambda s2: self.exec_block(s2, s.orelse, fr))
        return self.merge_normal(outs, npc, base_ids)

    # ---- state merging at the join point of an `if` (keeps unrolled loops / option handling linear)
    def merge_normal(self, outs, npc, base_ids):
        if not MERGE_IF:
            return outs
        normal = [o for o in outs if o.kind == "normal"]
        if len(normal) < 2:
            return outs
        for o in normal:
            if len(o.st.pc) < npc or [id(c) for c in o.st.pc[:npc]] != base_ids:
                return outs
        try:
            merged = self._merge_states([o.st for o in normal], npc)
        except _NoMerge:
            return outs
        self.stats["merges"] = self.stats.get("merges", 0) + 1
        rest = [o for o in outs if o.kind != "normal"]
        return [Out(merged, "normal")] + rest

    def _merge_states(self, sts, npc):
        conds = []
        for s_ in sts:
            cs = [c for c in s_.pc[npc:] if id(c) not in s_.facts]
            conds.append(z3.And(cs) if len(cs) > 1 else (cs[0] if cs else z3.BoolVal(True)))
        def ite(vals):
            t = vals[-1]
            for c, v in zip(reversed(conds[:-1]), reversed(vals[:-1])):
                t = z3.If(c, v, t)
            return t
        def mv(vals, where):
            v0 = vals[0]
            if all(v is v0 for v in vals):
                return v0
            if all(isinstance(v, Sym) for v in vals):
                if all(z3.eq(v.t, v0.t) for v in vals):
                    return v0
                hint = v0.hint if all(v.hint == v0.hint for v in vals) else None
                return Sym(ite([v.t for v in vals]), hint)
            if all(isinstance(v, Tup) for v in vals) and len({len(v.items) for v in vals}) == 1:
                return Tup([mv([v.items[i] for v in vals], where) for i in range(len(v0.items))])
            if all(isinstance(v, ClassV) for v in vals) and len({v.q for v in vals}) == 1:
                return v0
            if all(isinstance(v, (LList, LDict)) for v in vals) and len({(type(v), v.id) for v in vals}) == 1:
                return v0
            if all(isinstance(v, LSet) for v in vals) and len({(v.items, v.frozen) for v in vals}) == 1:
                return v0
            if all(isinstance(v, (FuncV, BuiltinV, ModV)) for v in vals) and len({repr(v) for v in vals}) == 1:
                return v0
            raise _NoMerge()
        m = sts[0].fork()
        m.pc = list(sts[0].pc[:npc])
        m.facts = set(); m.qfacts = set()
        for s_ in sts:
            m.facts |= s_.facts; m.qfacts |= s_.qfacts
        # facts (definitions of fresh symbols) are lifted; branch conditions become the If-guards
        seen = set()
        for s_ in sts:
            for c in s_.pc[npc:]:
                if id(c) in s_.facts and id(c) not in seen:
                    seen.add(id(c)); m.pc.append(c)
        if not all(z3.is_true(c) for c in conds):
            orc = z3.Or(conds)
            MERGE_ORS.add(orc.get_id()); _ALIVE.append(orc)
            m.pc.append(orc)
        # environment
        keys = set(sts[0].env)
        if any(set(s_.env) != keys for s_ in sts):
            # a name bound on some branches only: keep it only if never read later is unknowable => no merge
            raise _NoMerge()
        m.env = {k_: mv([s_.env[k_] for s_ in sts], k_) for k_ in sts[0].env}
        # local heap
        ids = set()
        for s_ in sts:
            ids |= set(s_.lheap)
        m.lheap = {}
        for lid in ids:
            have = [s_.lheap[lid] for s_ in sts if lid in s_.lheap]
            if len(have) != len(sts):
                m.lheap[lid] = list(have[0]) if isinstance(have[0], list) else dict(have[0])
                continue
            if isinstance(have[0], list):
                if len({len(h) for h in have}) != 1:
                    raise _NoMerge()
                m.lheap[lid] = [mv([h[i] for h in have], lid) for i in range(len(have[0]))]
            else:
                if len({tuple(h.keys()) for h in have}) != 1:
                    raise _NoMerge()
                m.lheap[lid] = {k_: mv([h[k_] for h in have], lid) for k_ in have[0]}
        # heap
        names = set()
        for s_ in sts:
            names |= set(s_.heap)
        m.heap = {}
        for n_ in names:
            arrs = [s_.arr(n_) for s_ in sts]
            m.heap[n_] = arrs[0] if all(z3.eq(a, arrs[0]) for a in arrs) else ite(arrs)
        fr_ = [s_.frontier for s_ in sts]
        m.frontier = fr_[0] if all(z3.eq(f, fr_[0]) for f in fr_) else ite(fr_)
        gk = set(sts[0].ghost)
        if any(set(s_.ghost) != gk for s_ in sts):
            raise _NoMerge()
        m.ghost = {k_: mv([s_.ghost[k_] for s_ in sts], k_) for k_ in gk}
        if any(len(s_.events) != len(sts[0].events) or any(a is not b for a, b in zip(s_.events, sts[0].events)) for s_ in sts):
            raise _NoMerge()
        if any(len(s_.exc_stack) != len(sts[0].exc_stack) for s_ in sts):
            raise _NoMerge()
        m.version = max(s_.version for s_ in sts) + 1
        m.trace = list(sts[0].trace[:]) + [f"merge{len(sts)}"]
        return m

    def ev_cond(self, st, test, fr, kt, kf):
        """Evaluate `test` for control flow, short-circuiting without building merged terms."""
        if isinstance(test, ast.BoolOp):
            vals = test.values
            if isinstance(test.op, ast.And):
                def go(st2, i):
                    if i == len(vals) - 1:
                        return self.ev_cond(st2, vals[i], fr, kt, kf)
                    return self.ev_cond(st2, vals[i], fr, lambda s3: go(s3, i + 1), kf)
                return go(st, 0)
            else:
                def go(st2, i):
                    if i == len(vals) - 1:
                        return self.ev_cond(st2, vals[i], fr, kt, kf)
                    return self.ev_cond(st2, vals[i], fr, kt, lambda s3: go(s3, i + 1))
                return go(st, 0)
        if isinstance(test, ast.UnaryOp) and isinstance(test.op, ast.Not):
            return self.ev_cond(st, test.operand, fr, kf, kt)
        return self.ev(st, test, fr, lambda s2, v: self.branch(s2, self.truthy(s2, v), kt, kf))

    def x_Assert(self, st, s, fr):
        def k(st2, v):
            c = self.truthy(st2, v)
            if not fr.spec:
                self.oblige(st2, f"assert@L{s.lineno}", c, kind="assert")
            st2.pc.append(c)
            return [Out(st2, "normal")]
        return self.ev(st, s.test, fr, k)

    def x_Raise(self, st, s, fr):
        if s.exc is None:
            if not st.exc_stack:
                raise Unsupported("bare raise outside handler")
            return [Out(st, "raise", st.exc_stack[-1])]
        def k(st2, v):
            if isinstance(v, ClassV):
                return self.construct(st2, v.q, [], {}, fr, lambda s3, e: self._do_raise(s3, e, s))
            return self._do_raise(st2, v, s)
        return self.ev(st, s.exc, fr, k)

    def _do_raise(self, st, v, s):
        if not isinstance(v, Sym):
            raise Unsupported(f"raise of {v!r}")
        st.trace.append(f"raise@L{s.lineno}")
        exc_ok = self.w.isinstance_term(v.t, ["builtins.BaseException"])
        return self.branch(st, exc_ok, lambda s2: [Out(s2, "raise", v)],
                           lambda s2: self.raise_(s2, "builtins.TypeError", "exceptions must derive from BaseException"))

    def x_Try(self, st, s, fr):
        outs = self.exec_block(st, s.body, fr)
        res = []
        for o in outs:
            if o.kind == "raise":
                res += self._handle(o, s.handlers, fr)
            elif o.kind == "normal" and s.orelse:
                res += self.exec_block(o.st, s.orelse, fr)
            else:
                res.append(o)
        if not s.finalbody:
            return res
        fin = []
        for o in res:
            for fo in self.exec_block(o.st, s.finalbody, fr):
                if fo.kind == "normal":
                    fin.append(Out(fo.st, o.kind, o.val))
                else:
                    fin.append(fo)        # finally's own exit wins
        return fin

    def _handle(self, o, handlers, fr):
        exc = o.val
        st = o.st
        def try_h(st2, i):
            if i == len(handlers):
                return [Out(st2, "raise", exc)]
            h = handlers[i]
            if h.type is None:
                return run(st2, h)
            def with_types(st3, tv):
                classes = self._exc_classes(tv)
                cond = self.w.isinstance_term(exc.t, classes)
                return self.branch(st3, cond, lambda s4: run(s4, h), lambda s4: try_h(s4, i + 1))
            return self.ev(st2, h.type, fr, with_types)
        def run(st2, h):
            if h.name:
                st2.env[h.name] = exc
            st2.exc_stack.append(exc)
            st2.trace.append(f"except@L{h.lineno}")
            outs = self.exec_block(st2, h.body, fr)
            for oo in outs:
                if oo.st.exc_stack:
                    oo.st.exc_stack.pop()
                if h.name:
                    oo.st.env.pop(h.name, None)
            return outs
        return try_h(st, 0)

    def _exc_classes(self, tv):
        if isinstance(tv, ClassV):
            return [tv.q]
        if isinstance(tv, Tup):
            out = []
            for x in tv.items:
                out += self._exc_classes(x)
            return out
        raise Unsupported(f"except clause type {tv!r}")

    def x_While(self, st, s, fr):
        return self.B.exec_while(self, st, s, fr)

    def x_For(self, st, s, fr):
        return self.B.exec_for(self, st, s, fr)

    def x_With(self, st, s, fr):
        return self.B.exec_with(self, st, s, fr)

    def x_FunctionDef(self, st, s, fr):
        st.env[s.name] = FuncV(f"{fr.q}.<locals>.{s.name}", s, fr.module, fr.cls, closure=st.env, kind="function")
        return [Out(st, "normal")]

    def x_yield(self, st, e, fr):
        """`yield` inside a @contextmanager generator that is being run for a `with` statement: the with-body is
        executed here, in the caller's frame; whatever it does (fall through, raise, return, break) comes out of the
        yield, so the generator's own try/except/finally around the yield see it exactly as in Python."""
        cm = getattr(fr, "cm", None)
        if cm is None:
            raise Unsupported("yield")
        if cm.get("used"):
            raise Unsupported("contextmanager generator yields more than once")
        cm["used"] = True
        gen_env = st.env
        st.env = cm["caller_env"]
        if e.value is not None and cm.get("as_name"):
            raise Unsupported("with ... as x over a contextmanager that yields a value")
        outs = self.exec_block(st, cm["body"], cm["caller_fr"])
        cm["used"] = False
        res = []
        for o in outs:
            cm_env = o.st.env
            o.st.env = dict(gen_env)
            o.st.cm_caller_env = cm_env
            if o.kind == "normal":
                res.append(Out(o.st, "normal"))
            else:
                res.append(o)          # raise / return / break / continue travel through the generator's finally blocks
        return res

    # ----------------------------------------------------------- expressions
    def ev(self, st, e, fr, k):
        m = getattr(self, "e_" + type(e).__name__, None)
        if m is None:
            raise Unsupported(f"expression {type(e).__name__} at line {getattr(e, 'lineno', '?')}")
        return m(st, e, fr, k)

    def ev_list(self, st, exprs, fr, k, acc=None):
        acc = acc or []
        if not exprs:
            return k(st, acc)
        return self.ev(st, exprs[0], fr, lambda s2, v: self.ev_list(s2, exprs[1:], fr, k, acc + [v]))

    def e_Constant(self, st, e, fr, k):
        c = e.value
        if c is Ellipsis:
            return k(st, Sym(mk_ref(z3.IntVal(self.w.singleton_loc("Ellipsis")))))
        return k(st, Sym(self.const_term(c)))

    def e_Name(self, st, e, fr, k):
        return k(st, self.lookup(st, e.id, fr))

    def lookup(self, st, name, fr):
        if name in st.env:
            return st.env[name]
        if fr.closure is not None and name in fr.closure:
            return fr.closure[name]
        if name in fr.specenv:
            return fr.specenv[name]
        if fr.spec:
            if name == "ghost":
                return ModV("$ghost")
            if name in self.w.specs:
                fi = self.w.specs[name]
                return FuncV(name, fi.node, fi.module, None, kind="spec")
            if name in self.w.spec_consts:
                return self.const_val(_freeze(self.w.spec_consts[name]))
        mod = self.w.facts["modules"].get(fr.module)
        if mod and name in mod["globals"]:
            return self.from_fact(mod["globals"][name])
        if fr.cls and not fr.spec:
            # class-body names (used by default argument values such as DEFAULT_ALLOWED_METHODS)
            r = self.w.find_attr(fr.cls, name)
            if r is not None and r[1]["kind"] == "const":
                return self.from_fact(r[1]["value"])
        if name in self.B.BUILTIN_NAMES:
            return BuiltinV(name)
        bq = "builtins." + name
        if bq in self.w.class_ids:
            return ClassV(bq)
        if fr.spec or fr.module.startswith("specs."):
            if name in self.w.specs:
                fi = self.w.specs[name]
                return FuncV(name, fi.node, fi.module, None, kind="spec")
            try:
                return ClassV(self.w.resolve_class(name))
            except SpecError:
                pass
            for mn, m in self.w.facts["modules"].items():
                if name in m["globals"] and m["globals"][name]["k"] in ("singleton", "int", "str", "frozenset", "set", "tuple", "bool"):
                    return self.from_fact(m["globals"][name])
        raise Unsupported(f"unresolved name {name!r} in {fr.q}")

    def e_Attribute(self, st, e, fr, k):
        return self.ev(st, e.value, fr, lambda s2, v: self.getattr_value(s2, v, e.attr, fr, k))

    def e_Tuple(self, st, e, fr, k):
        if any(isinstance(x, ast.Starred) for x in e.elts):
            return self._ev_starred_seq(st, e.elts, fr, lambda s2, items: k(s2, Tup(items)))
        return self.ev_list(st, e.elts, fr, lambda s2, items: k(s2, Tup(items)))

    def e_List(self, st, e, fr, k):
        def mk(s2, items):
            lid = self.w.fresh("L")
            s2.lheap[lid] = list(items)
            s2.version += 1
            return k(s2, LList(lid))
        if any(isinstance(x, ast.Starred) for x in e.elts):
            return self._ev_starred_seq(st, e.elts, fr, mk)
        return self.ev_list(st, e.elts, fr, mk)

    def _ev_starred_seq(self, st, elts, fr, k, acc=None):
        acc = acc or []
        if not elts:
            return k(st, acc)
        x = elts[0]
        if isinstance(x, ast.Starred):
            def kk(s2, v):
                items = self.B.concrete_items(self, s2, v)
                if items is None:
                    raise Unsupported("starred expression over symbolic-length sequence")
                return self._ev_starred_seq(s2, elts[1:], fr, k, acc + items)
            return self.ev(st, x.value, fr, kk)
        return self.ev(st, x, fr, lambda s2, v: self._ev_starred_seq(s2, elts[1:], fr, k, acc + [v]))

    def e_Set(self, st, e, fr, k):
        def mk(s2, items):
            keys = [self.B.concrete_key(self, s2, x) for x in items]
            if any(x is _NOKEY for x in keys):
                raise Unsupported("set display with symbolic items")
            return k(s2, LSet(keys, frozen=False))
        return self.ev_list(st, e.elts, fr, mk)

    def e_Dict(self, st, e, fr, k):
        def mk(s2, vals):
            d = {}
            n = len(e.keys)
            kv, vv = vals[:n], vals[n:]
            for key_e, kval, v in zip(e.keys, kv, vv):
                if key_e is None:     # **other
                    items = self.B.concrete_dict(self, s2, v)
                    if items is None:
                        raise Unsupported("dict display with ** of symbolic dict")
                    d.update(items)
                else:
                    ck = self.B.concrete_key(self, s2, kval)
                    if ck is _NOKEY:
                        raise Unsupported("dict display with symbolic key")
                    d[ck] = v
            lid = self.w.fresh("D")
            s2.lheap[lid] = d
            s2.version += 1
            return k(s2, LDict(lid))
        exprs = [(x if x is not None else ast.Constant(value=None)) for x in e.keys] + list(e.values)
        return self.ev_list(st, exprs, fr, mk)

    def e_JoinedStr(self, st, e, fr, k):
        # f-string: evaluate the pieces (they may raise), result is an opaque string unless all constant
        parts = [v.value for v in e.values if isinstance(v, ast.FormattedValue)]
        def mk(s2, vals):
            if all(isinstance(p, ast.Constant) for p in e.values):
                return k(s2, Sym(pystr("".join(p.value for p in e.values))))
            return k(s2, self.B.format_pieces(self, s2, e, vals))
        return self.ev_list(st, parts, fr, mk)

    def e_FormattedValue(self, st, e, fr, k):
        return self.ev(st, e.value, fr, k)

    def e_Lambda(self, st, e, fr, k):
        fn = ast.FunctionDef(name="<lambda>", args=e.args, body=[ast.Return(value=e.body)], decorator_list=[], returns=None)
        ast.copy_location(fn, e); ast.fix_missing_locations(fn)
        clo = dict(fr.closure or {}); clo.update(st.env)
        return k(st, FuncV(f"{fr.q}.<lambda>", fn, fr.module, fr.cls, closure=clo, kind="spec" if fr.spec else "function"))

    def e_IfExp(self, st, e, fr, k):
        if fr.spec:
            c = self.truthy(st, self.spec_value(st, e.test, {**fr.specenv, **st.env}, old=st.old, node=e.test, fr=fr))
            s1 = st.fork(); s1.pc.append(c)
            a = self.spec_value(s1, e.body, {**fr.specenv, **st.env}, old=st.old, node=e.body, fr=fr)
            s2 = st.fork(); s2.pc.append(z3.Not(c))
            b = self.spec_value(s2, e.orelse, {**fr.specenv, **st.env}, old=st.old, node=e.orelse, fr=fr)
            return k(st, Sym(z3.If(c, self.term(st, a), self.term(st, b))))
        def pure_try():
            return self._merge_try(st, fr, [
                (lambda s2, kk: self.ev_cond(s2, e.test, fr, lambda s3: self.ev(s3, e.body, fr, kk), lambda s3: self.ev(s3, e.orelse, fr, kk)))])
        merged = pure_try()
        if merged is not None:
            return k(st, merged)
        return self.ev_cond(st, e.test, fr, lambda s2: self.ev(s2, e.body, fr, k), lambda s2: self.ev(s2, e.orelse, fr, k))

    def _merge_try(self, st, fr, runners):
        """Run a pure sub-evaluation on a scratch fork; if every outcome is a plain value and the
        state was not changed, return the If-merged value; else None (caller forks for real)."""
        n_ob = len(self.obligs)
        base = st.fork()
        v0 = base.version
        npc = len(base.pc)
        try:
            outs = runners[0](base, _val(None))
        except _NoMerge:
            del self.obligs[n_ob:]
            return None
        ok = all(o.kind == "val" and o.st.version == v0 and isinstance(o.val, Sym) for o in outs) and outs
        if not ok or len(self.obligs) != n_ob:
            del self.obligs[n_ob:]
            return None
        if len(outs) == 1:
            self._lift_facts(st, outs, npc)
            # the single path's assumptions (callee postconditions, the only feasible branch condition) hold here
            if not os.environ.get("NO_MT"):
                for c_ in outs[0].st.pc[npc:]:
                    if id(c_) not in outs[0].st.facts:
                        st.pc.append(c_)
            return outs[0].val
        # conditions are the pc suffixes; branches are exclusive and (under st.pc) exhaustive
        t = outs[-1].val.t
        hint = outs[-1].val.hint
        for o in reversed(outs[:-1]):
            t = z3.If(self._branch_cond(o.st, npc), o.val.t, t)
            if o.val.hint != hint:
                hint = None
        self._lift_facts(st, outs, npc)
        # keep what each alternative knows (callee postconditions live in the path conditions): their disjunction holds
        conds = [self._branch_cond(o.st, npc) for o in outs]
        if not any(z3.is_true(c_) for c_ in conds) and not os.environ.get("NO_MT"):
            st.pc.append(z3.Or(conds))
        return Sym(t, hint)

    def _branch_cond(self, s, npc):
        cs = [c for c in s.pc[npc:] if id(c) not in s.facts]
        return z3.And(cs) if cs else z3.BoolVal(True)

    def _lift_facts(self, st, outs, npc):
        seen = set()
        for o in outs:
            for c in o.st.pc[npc:]:
                if id(c) in o.st.facts and id(c) not in seen:
                    seen.add(id(c))
                    st.fact(c)

    def e_BoolOp(self, st, e, fr, k):
        is_and = isinstance(e.op, ast.And)
        if fr.spec:
            # logical reading: each operand is translated under the assumption that the previous
            # ones did not short-circuit (so guards such as `is_num(v) and v > 0` protect the rest)
            terms = []
            s2 = st.fork()
            for sub in e.values:
                v = self.spec_value(s2, sub, {**fr.specenv, **s2.env}, old=s2.old, node=sub, fr=fr)
                t = self.truthy(s2, v)
                terms.append(t)
                s2.pc.append(t if is_and else z3.Not(t))
            return k(st, Sym(mk_bool(z3.And(terms) if is_and else z3.Or(terms))))
        def run(s2, kk, i=0):
            if i == len(e.values) - 1:
                return self.ev(s2, e.values[i], fr, kk)
            def got(s3, v):
                c = self.truthy(s3, v)
                if is_and:
                    return self.branch(s3, c, lambda s4: run(s4, kk, i + 1), lambda s4: kk(s4, v))
                return self.branch(s3, c, lambda s4: kk(s4, v), lambda s4: run(s4, kk, i + 1))
            return self.ev(s2, e.values[i], fr, got)
        merged = self._merge_try(st, fr, [lambda s2, kk: run(s2, kk)])
        if merged is not None:
            return k(st, merged)
        return run(st, k)

    def e_UnaryOp(self, st, e, fr, k):
        def got(s2, v):
            if isinstance(e.op, ast.Not):
                return k(s2, Sym(mk_bool(z3.simplify(z3.Not(self.truthy(s2, v))))))
            if isinstance(e.op, (ast.USub, ast.UAdd)):
                if not isinstance(v, Sym):
                    raise Unsupported("unary minus on non-scalar")
                t = v.t
                sign = -1 if isinstance(e.op, ast.USub) else 1
                res = z3.If(is_flt(t), mk_flt(sign * get_r(t)), mk_int(sign * as_int(t)))
                return self.branch(s2, is_numeric(t), lambda s3: k(s3, Sym(z3.simplify(res))),
                                   lambda s3: self.raise_(s3, "builtins.TypeError", "bad operand for unary -"))
            raise Unsupported("unary op")
        return self.ev(st, e.operand, fr, got)

    def e_BinOp(self, st, e, fr, k):
        return self.ev(st, e.left, fr, lambda s2, a: self.ev(s2, e.right, fr,
                       lambda s3, b: self.B.binop(self, s3, e.op, a, b, fr, k)))

    def e_Compare(self, st, e, fr, k):
        if len(e.ops) == 1:
            return self.ev(st, e.left, fr, lambda s2, a: self.ev(s2, e.comparators[0], fr,
                           lambda s3, b: self.B.compare(self, s3, e.ops[0], a, b, fr, k)))
        # chain a < b < c : evaluate left to right with short circuit
        def go(s2, left, i):
            def got(s3, right):
                def after(s4, r):
                    if i == len(e.ops) - 1:
                        return k(s4, r)
                    return self.branch(s4, self.truthy(s4, r), lambda s5: go(s5, right, i + 1), lambda s5: k(s5, r))
                return self.B.compare(self, s3, e.ops[i], left, right, fr, after)
            return self.ev(s2, e.comparators[i], fr, got)
        def run(s2, kk):
            nonlocal k
            k0 = k; k = kk
            try:
                return self.ev(s2, e.left, fr, lambda s3, a: go(s3, a, 0))
            finally:
                k = k0
        merged = self._merge_try(st, fr, [run])
        if merged is not None:
            return k(st, merged)
        return self.ev(st, e.left, fr, lambda s3, a: go(s3, a, 0))

    def e_Subscript(self, st, e, fr, k):
        if isinstance(e.slice, ast.Slice):
            sl = e.slice
            parts = [sl.lower or ast.Constant(value=None), sl.upper or ast.Constant(value=None), sl.step or ast.Constant(value=None)]
            return self.ev(st, e.value, fr, lambda s2, c: self.ev_list(s2, parts, fr,
                           lambda s3, lus: self.B.getslice(self, s3, c, lus[0], lus[1], lus[2], fr, k)))
        return self.ev(st, e.value, fr, lambda s2, c: self.ev(s2, e.slice, fr,
                       lambda s3, key: self.B.getitem(self, s3, c, key, fr, k)))

    def e_ListComp(self, st, e, fr, k):
        return self.B.comprehension(self, st, e, fr, k, "list")

    def e_GeneratorExp(self, st, e, fr, k):
        return self.B.comprehension(self, st, e, fr, k, "gen")

    def e_SetComp(self, st, e, fr, k):
        return self.B.comprehension(self, st, e, fr, k, "set")

    def e_DictComp(self, st, e, fr, k):
        return self.B.comprehension(self, st, e, fr, k, "dict")

    def e_Call(self, st, e, fr, k):
        f = e.func
        # ---- special forms -------------------------------------------------
        if isinstance(f, ast.Name) and f.id not in st.env:
            sp = self.B.SPECIAL_FORMS.get(f.id)
            if sp is not None and (fr.spec or f.id in self.B.SPECIAL_ALWAYS):
                return sp(self, st, e, fr, k)
        if isinstance(f, ast.Attribute) and isinstance(f.value, ast.Name) and f.value.id == "typing" and f.attr == "cast":
            return self.ev(st, e.args[1], fr, k)
        def with_f(s2, fv):
            if isinstance(fv, Sym) and isinstance(f, ast.Name):
                fv = _Origin(fv.t, fv.hint, f.id)
            elif isinstance(fv, Sym) and isinstance(f, ast.Attribute):
                fv = _Origin(fv.t, fv.hint, "." + f.attr)
            def do(s3, args, kwargs):
                if isinstance(f, ast.Name) and self.cur is not None and not fr.spec:
                    for callee, nm, expr in self.cur.site_asserts:
                        if callee == "name:" + f.id:
                            env = dict(s3.env); env["args"] = Tup(args)
                            lid = self.w.fresh("D"); s3.lheap[lid] = dict(kwargs); env["kwargs"] = LDict(lid)
                            env.update(self.cur_entry or {})
                            env.update({k_: v_ for k_, v_ in s3.env.items()})
                            g_ = self.spec_bool(s3, expr, env, old=s3.old)
                            self.oblige(s3, f"site:{nm}", g_, kind="site", clause=expr, site_env=env)
                            s3.pc.append(g_)
                return self.call(s3, fv, args, kwargs, fr, k, node=e)
            return self.ev_args(s2, e, fr, do)
        return self.ev(st, f, fr, with_f)

    def ev_args(self, st, e, fr, k):
        pos = []
        def go_pos(s2, i, acc):
            if i == len(e.args):
                return go_kw(s2, 0, acc, {})
            a = e.args[i]
            if isinstance(a, ast.Starred):
                def got(s3, v):
                    items = self.B.concrete_items(self, s3, v)
                    if items is None:
                        raise Unsupported("*args of symbolic length")
                    return go_pos(s3, i + 1, acc + items)
                return self.ev(s2, a.value, fr, got)
            return self.ev(s2, a, fr, lambda s3, v: go_pos(s3, i + 1, acc + [v]))
        def go_kw(s2, i, pos, kws):
            if i == len(e.keywords):
                return k(s2, pos, kws)
            kw = e.keywords[i]
            if kw.arg is None:
                def got(s3, v):
                    items = self.B.concrete_dict(self, s3, v)
                    if items is None:
                        raise Unsupported("**kwargs of symbolic dict")
                    nk = dict(kws); nk.update(items)
                    return go_kw(s3, i + 1, pos, nk)
                return self.ev(s2, kw.value, fr, got)
            def got(s3, v):
                nk = dict(kws); nk[kw.arg] = v
                return go_kw(s3, i + 1, pos, nk)
            return self.ev(s2, kw.value, fr, got)
        return go_pos(st, 0, [])

    # ------------------------------------------------------------- attribute
    def getattr_value(self, st, v, name, fr, k):
        if isinstance(v, ModV):
            return k(st, self.module_attr(st, v, name, fr))
        if isinstance(v, ClassV):
            return k(st, self.class_attr(st, v.q, name, None, fr))
        if isinstance(v, SuperV) and isinstance(v.recv, ClassV) and name == "__new__":
            return k(st, BuiltinV("$namedtuple_new"))
        if isinstance(v, SuperV):
            r = self.w.find_attr(self.hint_of(st, v.recv), name, after=v.after)
            if r is None:
                raise Unsupported(f"super().{name}")
            owner, ent = r
            return k(st, self._member(st, owner, ent, v.recv, fr))
        if isinstance(v, (Tup, LList, LDict, LSet, RegexV)):
            return k(st, BoundV(v, None, name))
        if isinstance(v, FuncV):
            raise Unsupported(f"attribute {name} of function")
        if isinstance(v, Sym):
            return self.B.getattr_sym(self, st, v, name, fr, k)
        raise Unsupported(f"getattr on {v!r}")

    def hint_of(self, st, v):
        if isinstance(v, Sym) and v.hint:
            return v.hint
        raise Unsupported(f"no static class known for {v!r}")

    def module_attr(self, st, m, name, fr):
        if m.name == "$ghost":
            if name not in st.ghost:
                raise SpecError(f"unknown ghost variable {name}")
            return st.ghost[name]
        mod = self.w.facts["modules"].get(m.name)
        sg = getattr(self.cur, "symbolic_globals", None) if self.cur is not None else None
        if sg and f"{m.name}.{name}" in sg:
            # a platform / backend flag the proof must not depend on: an arbitrary (but fixed) bool
            self.stats["builtins_used"].add(f"module flag {m.name}.{name}: arbitrary fixed bool (proved for both values)")
            return Sym(mk_bool(z3.Bool(f"glob_{m.name}.{name}")))
        if mod is not None:
            if name in mod["globals"]:
                return self.from_fact(mod["globals"][name])
            raise Unsupported(f"{m.name}.{name} not found")
        full = f"{m.name}.{name}"
        if full == "sys.version_info":
            import re as _re
            mm = _re.match(r"(\d+)\.(\d+)\.(\d+)", self.w.facts["python"])
            self.stats["builtins_used"].add("sys.version_info of the interpreter that runs urllib3 (facts probe)")
            return Tup([Sym(pyint(int(x))) for x in mm.groups()])
        if m.name in ("errno", "ssl"):
            import importlib
            val = getattr(importlib.import_module(m.name), name, None)
            if isinstance(val, int) and not isinstance(val, bool):
                val = int(val)          # IntEnum members (ssl.CERT_NONE ...) by their integer value
                self.stats["builtins_used"].add(f"constant {full} read from the engine interpreter's stdlib (same platform)")
                return Sym(pyint(val))
        if full == "typing.TYPE_CHECKING":
            return Sym(FALSE)
        if full in self.w.class_ids:
            return ClassV(full)
        alias = "_" + full          # C accelerator modules: queue.Empty is _queue.Empty, socket.socket's base is _socket.socket ...
        if alias in self.w.class_ids:
            return ClassV(alias)
        if full in self.B.MODULE_NAMES:
            return ModV(full)
        return BuiltinV(full)

    def class_attr(self, st, clsq, name, recv, fr):
        r = self.w.find_attr(clsq, name)
        if r is None:
            if name == "__name__":
                return Sym(pystr(clsq.split(".")[-1]))
            raise Unsupported(f"class attribute {clsq}.{name}")
        owner, ent = r
        return self._member(st, owner, ent, recv, fr, via_class=clsq)

    def _member(self, st, owner, ent, recv, fr, via_class=None):
        name, kind = ent["name"], ent["kind"]
        q = f"{owner}.{name}"
        if kind == "const":
            return self.from_fact(ent["value"])
        if kind in ("method", "static", "classmethod", "property"):
            fi = self.w.funcs.get(q)
            fv = FuncV(q, fi.node, fi.module, fi.cls, kind=fi.kind) if fi else BuiltinV(q)
            if kind == "static":
                return fv
            if kind == "classmethod":
                c = ClassV(via_class) if via_class else ClassV(self.hint_of(st, recv))
                return BoundV(c, fv, name)
            if recv is None:
                return fv                      # unbound function accessed through the class
            return BoundV(recv, fv, name)
        if kind == "other":
            if ent.get("class"):
                return ClassV(ent["class"])
            # class-level attribute holding an arbitrary object (e.g. Retry.DEFAULT, ConnectionCls)
            loc = self.w.singleton_loc(f"classattr:{owner}.{name}")
            return Sym(mk_ref(z3.IntVal(loc)), hint=self.reg.field_hints.get((owner, name)))
        raise Unsupported(f"member kind {kind} for {q}")

    def setattr_value(self, st, obj, name, v, fr, k):
        if not isinstance(obj, Sym):
            raise Unsupported(f"setattr on {obj!r}")
        t = obj.t
        if obj.hint:
            r = self.w.find_attr(obj.hint, name)
            if r and r[1]["kind"] == "property" and (r[0], name) not in self.reg.plain_fields:
                sq = f"{r[0]}.{name}"
                fi = self.w.setters.get(sq)
                if fi is None:
                    return self.raise_(st, "builtins.AttributeError", f"can't set {name}")
                fv = FuncV(sq, fi.node, fi.module, fi.cls, kind="method")
                return self.call(st, fv, [obj, v], {}, fr, k)
        def ok(s2):
            s2.write(name, get_loc(t), self.term(s2, v))
            if isinstance(v, Sym) and v.hint:
                pass
            return k(s2, None)
        return self.branch(st, is_ref(t), ok, lambda s2: self.raise_(s2, "builtins.AttributeError", f"set .{name} on non-object"))

    # ------------------------------------------------------------------ calls
    def call(self, st, f, args, kwargs, fr, k, node=None):
        if isinstance(f, BoundV):
            if f.func is None or isinstance(f.func, BuiltinV) and not isinstance(f.recv, ClassV):
                if self.cur is not None and not fr.spec and fr.depth == 0:
                    for callee, nm, expr in self.cur.site_asserts:
                        if callee == "method:" + f.name:
                            env = {"self": f.recv, "args": Tup(list(args))}
                            env.update({"caller_" + k_: v for k_, v in st.env.items()})
                            g_ = self.spec_bool(st, expr, env, old=st.old)
                            self.oblige(st, f"site:{nm}", g_, kind="site", clause=expr, site_env=env)
                            st.pc.append(g_)
                return self.B.call_method(self, st, f.recv, f.name, f.func, args, kwargs, fr, k)
            return self.call(st, f.func, [f.recv] + list(args), kwargs, fr, k, node=node)
        if isinstance(f, ClassV):
            return self.construct(st, f.q, args, kwargs, fr, k)
        if isinstance(f, FuncV):
            return self.call_func(st, f, args, kwargs, fr, k, node)
        if isinstance(f, BuiltinV):
            c = self.reg.contracts.get(f.name)
            if c is not None:
                if self.cur is not None and not fr.spec and fr.depth == 0:
                    for callee, nm, expr in self.cur.site_asserts:
                        base, _, ordn = callee.partition("#")
                        if f.name.endswith(base) and (not ordn or (node is not None and self.call_ordinal(fr, node, base.split(".")[-1]) == int(ordn))):
                            env, err = self.spec_env_for(c, None, args, kwargs, st, fr)
                            env = dict(env); env.update({"caller_" + k_: v for k_, v in st.env.items()})
                            g_ = self.spec_bool(st, expr, env, old=st.old)
                            self.oblige(st, f"site:{nm}", g_, kind="site", clause=expr, site_env=env)
                            st.pc.append(g_)
                return self.apply_contract(st, c, None, args, kwargs, fr, k, node)
            return self.B.call_builtin(self, st, f.name, args, kwargs, fr, k)
        if isinstance(f, Sym):
            return self.B.call_sym(self, st, f, args, kwargs, fr, k)
        raise Unsupported(f"call of {f!r}")

    def call_func(self, st, f, args, kwargs, fr, k, node=None):
        q = f.q
        c = self.reg.contracts.get(q)
        if c is None and self.cur is not None and q == self.cur_q:
            c = self.cur              # recursion of a function verified under a variant: its own contract
        if f.kind == "spec" or fr.spec:
            return self.inline(st, f, args, kwargs, fr, k, spec=True)
        if self.cur is not None:
            for callee, nm, expr in self.cur.site_asserts:
                base, _, ordn = callee.partition("#")
                if q.endswith(base) and (not ordn or (node is not None and fr.depth == 0 and self._site_selected(fr, node, base, ordn))):
                    self._site_assert(st, f, args, kwargs, fr, nm, expr)
        if c is not None and (c.mode == "assumed" or self.cur is None or q not in self.cur.inline_calls) and not (
                c.mode == "verify" and c is self.cur and False):
            return self.apply_contract(st, c, f, args, kwargs, fr, k, node)
        if self.cur is not None and q == self.cur_q and fr.depth > 0:
            raise Unsupported(f"recursive call of {q} without contract")
        return self.inline(st, f, args, kwargs, fr, k)

    def bind_params(self, st, fnode, args, kwargs, fr_callee, k, q="?"):
        """Bind arguments to parameters (Python's calling convention); defaults are evaluated in the
        callee's module scope (they are constants or module-level names in this code base)."""
        a = fnode.args
        params = [p.arg for p in a.posonlyargs + a.args]
        env = {}
        args = list(args)
        kwargs = dict(kwargs)
        if len(args) > len(params) and a.vararg is None:
            return None, f"too many positional arguments for {q}"
        for p, v in zip(params, args):
            env[p] = v
        extra = args[len(params):]
        if a.vararg is not None:
            env[a.vararg.arg] = Tup(extra)
        missing = []
        defaults = a.defaults
        nd = len(defaults)
        for i, p in enumerate(params):
            if p in env:
                if p in kwargs:
                    return None, f"multiple values for argument {p}"
                continue
            if p in kwargs:
                env[p] = kwargs.pop(p)
                continue
            di = i - (len(params) - nd)
            if di >= 0:
                missing.append((p, defaults[di]))
            else:
                return None, f"missing argument {p} for {q}"
        for p, d in zip(a.kwonlyargs, a.kw_defaults):
            if p.arg in kwargs:
                env[p.arg] = kwargs.pop(p.arg)
            elif d is not None:
                missing.append((p.arg, d))
            else:
                return None, f"missing keyword-only argument {p.arg}"
        if kwargs:
            if a.kwarg is None:
                return None, f"unexpected keyword arguments {sorted(kwargs)} for {q}"
        return (env, missing, kwargs if a.kwarg is not None else None), None

    def inline(self, st, f, args, kwargs, fr, k, spec=False):
        if fr.depth > MAX_INLINE_DEPTH:
            raise Unsupported(f"inline depth exceeded at {f.q}")
        fnode = f.node
        nfr = Frame(f.module, f.cls, f.q, closure=f.closure, spec=spec or fr.spec, depth=fr.depth + 1,
                    specenv=fr.specenv if (spec or fr.spec) else None)
        bound, err = self.bind_params(st, fnode, args, kwargs, nfr, k, f.q)
        if err:
            if fr.spec:
                raise SpecError(err)
            return self.raise_(st, "builtins.TypeError", err)
        env, missing, kwrest = bound
        if not (spec or fr.spec):
            self.stats["inlined"].add(f.q)
        if _is_generator(fnode):
            if f.kind == "contextmanager" or any(getattr(d, "id", getattr(d, "attr", None)) == "contextmanager" for d in fnode.decorator_list):
                return k(st, self.B.CMV(f, list(args), dict(kwargs)))
            gcls = next((c_ for c_ in ("types.GeneratorType", "builtins.generator") if c_ in self.w.class_ids), None)
            if "<locals>" in f.q and not fr.spec and gcls:
                # calling a generator function runs none of its body: the result is a fresh generator object.
                # What the generator yields later is NOT verified here (its consumer sees an opaque iterable).
                self.stats["builtins_used"].add(f"generator {f.q.split('.')[-1]}(): fresh lazy generator object; its body (run by the consumer) is outside the obligations")
                return k(st, Sym(mk_ref(self.alloc(st, gcls)), gcls))
            raise Unsupported(f"call of generator function {f.q}")
        caller_env = st.env
        def run(s2, env2):
            if fnode.args.kwarg is not None:
                lid = self.w.fresh("D")
                s2.lheap[lid] = dict(kwrest or {})
                env2[fnode.args.kwarg.arg] = LDict(lid)
            saved = s2.env
            s2.env = env2
            s2.trace.append(f"->{f.q.split('.')[-1]}")
            outs = self.exec_block(s2, fnode.body, nfr)
            res = []
            for o in outs:
                o.st.env = dict(saved)
                if o.kind in ("return", "normal"):
                    o.st.trace.append("<-")
                    res += k(o.st, o.val if o.kind == "return" else Sym(NONE))
                elif o.kind == "raise":
                    res.append(o)
                elif o.kind == "val":
                    res.append(o)
                else:
                    raise Unsupported(f"{o.kind} escaping function {f.q}")
            return res
        # evaluate defaults (in callee module scope, empty locals)
        def eval_defaults(s2, i, env2):
            if i == len(missing):
                return run(s2, env2)
            p, d = missing[i]
            dfr = Frame(f.module, f.cls, f.q, closure=f.closure, spec=nfr.spec, depth=nfr.depth, specenv=nfr.specenv)
            saved = s2.env
            s2.env = {}
            def got(s3, v):
                s3.env = saved
                e3 = dict(env2); e3[p] = v
                return eval_defaults(s3, i + 1, e3)
            return self.ev(s2, d, dfr, got)
        return eval_defaults(st, 0, env)

    def construct(self, st, q, args, kwargs, fr, k):
        return self.B.construct(self, st, q, args, kwargs, fr, k)

    # ---------------------------------------------------------- contracts
    def spec_env_for(self, c, f, args, kwargs, st, fr):
        """Bind call arguments to the contract's parameter names."""
        if f is not None:
            bound, err = self.bind_params(st, f.node, args, kwargs, fr, None, c.q)
            if err:
                return None, err
            env, missing, kwrest = bound
            for p, d in missing:
                try:
                    env[p] = self.const_val(ast.literal_eval(d))
                except Exception:
                    # default is a module-level name: resolve in callee module
                    holder = {}
                    dfr = Frame(f.module, f.cls, f.q)
                    s0 = st.fork(); s0.env = {}
                    outs = self.ev(s0, d, dfr, _val(None))
                    if len(outs) != 1 or outs[0].kind != "val":
                        raise Unsupported(f"default of {p} in {c.q}")
                    env[p] = outs[0].val
            if kwrest is not None and f.node.args.kwarg is not None:
                lid = self.w.fresh("D")
                st.lheap[lid] = dict(kwrest)
                env[f.node.args.kwarg.arg] = LDict(lid)
            return env, None
        # builtin with declared parameter list
        names = getattr(c, "param_names", None)
        if names is None:
            raise SpecError(f"assumed contract {c.q} needs param_names")
        env = {}
        for n, v in zip(names, args):
            env[n] = v
        for n, v in kwargs.items():
            env[n] = v
        for n in names:
            env.setdefault(n, Sym(NONE))
        return env, None

    def spec_bool(self, st, expr, env, old=None, module="specs.$contract", ghost_st=None):
        """Translate a contract clause (string) to a z3 Bool over state `st` (pure; forks merged)."""
        v = self.spec_value(st, expr, env, old, module)
        return self.truthy(st, v)

    def spec_value(self, st, expr, env, old=None, module="specs.$contract", node=None, fr=None):
        if node is None:
            node = _parse_expr(expr)
        s0 = st.fork()
        s0.env = dict(env)
        if old is not None:
            s0.old = old
        if fr is None:
            fr = Frame(module, None, "$spec", spec=True, specenv={})
        npc = len(s0.pc)
        outer = self.lazy == 0
        if outer:
            self._spec_raises = []
        self.lazy += 1
        try:
            outs = self.ev(s0, node, fr, _val(None))
        except Unsupported:
            # a spec sub-expression evaluated under contradictory assumptions (a dead branch of and/or/implies)
            # may not even be well-typed: any value will do there
            if not self.feasible(st):
                return Sym(FALSE)
            raise
        finally:
            self.lazy -= 1
        good = []
        for o in outs:
            if o.kind == "raise":
                # feasibility of partial-spec branches is decided once, at the outermost clause
                self._spec_raises.append((o.st, o.val, expr if isinstance(expr, str) else ast.unparse(node)))
                continue
            if o.kind != "val":
                raise SpecError(f"spec expression escapes with {o.kind}")
            good.append(o)
        if outer and self._spec_raises:
            rs, self._spec_raises = self._spec_raises, []
            sv = z3.Solver(); sv.set("timeout", 5000)
            sv.add(*[c for c in s0.pc[:npc] if id(c) not in s0.qfacts])
            sv.add(z3.Or([z3.And([c for c in r_st.pc[npc:] if id(c) not in r_st.qfacts] or [z3.BoolVal(True)]) for r_st, _, _ in rs]))
            self.stats["feas_checks"] += 1
            if sv.check() != z3.unsat:
                for r_st, r_val, r_expr in rs:
                    if self.feasible(r_st):
                        raise SpecError(f"spec expression {r_expr!r} may raise ({r_val}) trace={r_st.trace[-4:]}")
        if not good:
            return Sym(FALSE)          # every branch infeasible: pc is unsat, any value will do
        self._lift_facts(st, good, npc)
        if len(good) == 1:
            return good[0].val
        t = None
        for o in reversed(good):
            vt = self.term(o.st, o.val)
            if t is None:
                t = vt
            else:
                t = z3.If(self._branch_cond(o.st, npc), vt, t)
        return Sym(z3.simplify(t))

    def spec_bool_old(self, st, expr, env):
        """Clause evaluated in the *entry* state (when-conditions of raises clauses, modifies targets)."""
        s0 = st.fork()
        s0.heap = dict(st.old[0]); s0.frontier = st.old[1]; s0.ghost = dict(st.old[2])
        return self.spec_bool(s0, expr, env, old=st.old)

    def _site_selected(self, fr, node, base, sel):
        """`Callee#3` = the third call site in source order; `Callee#lit:X` = the call sites whose first argument is the literal X"""
        if sel.startswith("lit:"):
            a0 = node.args[0] if getattr(node, "args", None) else None
            return isinstance(a0, ast.Constant) and str(a0.value) == sel[4:]
        return self.call_ordinal(fr, node, base.split(".")[-1]) == int(sel)

    def call_ordinal(self, fr, node, attr):
        """1-based position (source order) of this call among the calls `<x>.<attr>(...)` of the function under verification"""
        fi = self.w.funcs.get(self.cur_q)
        if fi is None:
            return None
        calls = [n for n in ast.walk(fi.node) if isinstance(n, ast.Call) and isinstance(n.func, ast.Attribute) and n.func.attr == attr]
        calls.sort(key=lambda n: (n.lineno, n.col_offset))
        for i, n in enumerate(calls):
            if n.lineno == node.lineno and n.col_offset == node.col_offset:
                return i + 1
        return None

    def _site_assert(self, st, f, args, kwargs, fr, nm, expr):
        env, err = self.spec_env_for(self.reg.contracts.get(f.q) or dsl.Contract(f.q), f, args, kwargs, st, fr)
        if err:
            return
        env = dict(env); env.update({"caller_" + k_: v for k_, v in st.env.items()})
        for nm_ in (getattr(self.cur, "site_old", None) or {}):
            if self.cur_entry and nm_ in self.cur_entry:
                env[nm_] = self.cur_entry[nm_]
        g = self.spec_bool(st, expr, env, old=st.old)
        self.oblige(st, f"site:{nm}", g, kind="site", clause=expr, site_env=env)
        st.pc.append(g)          # assert, then assume: a violation is reported once, at the site

    def apply_contract(self, st, c, f, args, kwargs, fr, k, node=None):
        """Use a callee at its contract: assert requires, havoc modifies, assume ensures, fork raises."""
        env, err = self.spec_env_for(c, f, args, kwargs, st, fr)
        if err:
            return self.raise_(st, "builtins.TypeError", err)
        (self.stats["assumed_used"] if c.mode == "assumed" else self.stats["by_contract"]).add(c.q)
        short = c.q.split(".")[-1]
        st.trace.append(f"call {short} by contract")
        pre = st.snapshot()
        for nm, expr in c.requires_l:
            g = self.spec_bool(st, expr, env, old=pre)
            if not fr.spec:
                self.oblige(st, f"pre@{short}:{nm}", g, kind="pre")
            st.pc.append(g)
        outs = []
        # ---- exceptional outcomes
        raises_l = list(c.raises_l)
        if c.raises_any and not any(r.when is None and "BaseException" in [x.split(".")[-1] for x in r.classes] for r in raises_l):
            raises_l.append(dsl.Raises("BaseException"))      # "may raise anything" is also what callers must expect
        for ri, r in enumerate(raises_l):
            s2 = st.fork()
            if r.when is not None:
                wc = self.spec_bool(s2, r.when, env, old=pre)
                if not self.feasible(s2, wc):
                    if os.environ.get("PYVC_TRACE"):
                        print(f"[raise clause {short}:{r.name} infeasible here] trace={s2.trace[-4:]}", flush=True)
                    continue
                s2.pc.append(wc)
            self.havoc(s2, c, env, pre, r.modifies if r.modifies is not None else c.modifies_l)
            classes = [self.w.resolve_class(x) for x in r.classes]
            # the exception is some object existing after the call: newly created by the callee, or one that
            # existed before (a callee may re-raise an object it was given)
            s2.frontier = z3.simplify(s2.frontier + 1)
            exc = self.fresh_v("exc_" + short, hint=classes[0] if len(classes) == 1 else None)
            s2.pc.append(z3.And(is_ref(exc.t), get_loc(exc.t) >= 0, get_loc(exc.t) < s2.frontier))
            s2.pc.append(self.w.isinstance_term(exc.t, classes))
            env2 = dict(env); env2["exc"] = exc
            if r.ensures is not None:
                s2.pc.append(self.spec_bool(s2, r.ensures, env2, old=pre))
            for nm, expr in c.exc_ensures_l:
                s2.pc.append(self.spec_bool(s2, expr, env2, old=pre))
            s2.trace.append(f"{short} raises {'|'.join(x.split('.')[-1] for x in classes)}")
            if self.feasible(s2):
                outs.append(Out(s2, "raise", exc))
        # ---- normal outcome
        s3 = st
        for r in c.raises_l:
            if r.iff and r.when is not None:
                s3.pc.append(z3.Not(self.spec_bool(s3, r.when, env, old=pre)))
        self.havoc(s3, c, env, pre, c.modifies_l)
        res = self.fresh_v("ret_" + short, hint=getattr(c, "result_hint", None))
        if c.allocates:
            nf = self.fresh_int("A")
            s3.pc.append(nf >= s3.frontier)
            s3.frontier = nf
        s3.pc.append(z3.Implies(is_ref(res.t), get_loc(res.t) < s3.frontier))
        env3 = dict(env); env3["result"] = res
        for nm, expr in c.ensures_l:
            s3.pc.append(self.spec_bool(s3, expr, env3, old=pre))
        if not c.ensures_l and not c.raises_l and c.modifies_l is None:
            raise SpecError(f"empty contract for {c.q}")
        n_exc = len(outs)
        normal_ok = self.feasible(s3)
        if normal_ok:
            outs += k(s3, res)
        if not normal_ok and n_exc == 0 and self.lazy == 0 and not fr.spec:
            # vacuity guard: the callee's contract admits neither a return nor an exception from a reachable state
            self.stats.setdefault("dead_calls", []).append(f"{short} at trace {st.trace[-4:]}")
        return outs

    def havoc(self, st, c, env, pre, mods):
        if mods is None:
            if c.mode == "assumed":
                raise SpecError(f"assumed contract {c.q} must declare modifies")
            mods = ["*"]
        for m in mods:
            if m == "*":
                for name in list(st.heap):
                    st.heap[name] = z3.Const(self.w.fresh("H_" + name), field_sort(name))
                st.version += 1
            elif m.startswith("ghost."):
                g = m[6:]
                st.ghost[g] = self.fresh_v("g_" + g)
                st.version += 1
            elif m.startswith("*."):
                name = m[2:]
                st.heap[name] = z3.Const(self.w.fresh("H_" + name), field_sort(name))
                st.version += 1
            else:
                obj_expr, _, name = m.rpartition(".")
                ov = self.spec_value(st, obj_expr, env, old=pre)
                if not isinstance(ov, Sym):
                    raise SpecError(f"modifies target {m}")
                fv = z3.Const(self.w.fresh("hv_" + name), field_sort(name).range())
                st.write(name, get_loc(ov.t), fv)

    # ---------------------------------------------------------------- verify
    def declare_param(self, st, name, ty, v):
        """Assume the declared type of a parameter (listed as precondition in the evidence)."""
        opt = False
        if ty.startswith("opt:"):
            opt, ty = True, ty[4:]
        if ty == "any":
            return v
        prim = {"int": "builtins.int", "str": "builtins.str", "bool": "builtins.bool", "float": "builtins.float",
                "bytes": "builtins.bytes"}
        if ty in prim:
            c = self.w.isinstance_term(v.t, [prim[ty]])
            if ty == "int":
                c = is_int(v.t)
            hint = None
        else:
            q = self.w.resolve_class(ty)
            c = z3.And(self.w.isinstance_term(v.t, [q]), get_loc(v.t) >= 0, get_loc(v.t) < st.A0)
            hint = q
        st.pc.append(z3.Or(c, is_none(v.t)) if opt else c)
        return Sym(v.t, hint)


_HARD = {}
_HARD_KINDS = {getattr(z3, n) for n in dir(z3) if n.startswith(("Z3_OP_SEQ_", "Z3_OP_RE_", "Z3_OP_STR_", "Z3_OP_STRING_"))
               and n not in ("Z3_OP_SEQ_LENGTH", "Z3_OP_SEQ_CONCAT", "Z3_OP_SEQ_UNIT", "Z3_OP_SEQ_EMPTY")}


def _hard(c):
    """conjuncts that can make z3's sequence solver ignore its timeout are left out of *feasibility*
    queries (sound: fewer hypotheses => more paths explored); obligations always keep the full pc"""
    r = _HARD.get(c.get_id())
    if r is not None:
        return r
    seen = set(); stack = [c]; r = False
    while stack:
        x = stack.pop()
        if x.get_id() in seen:
            continue
        seen.add(x.get_id())
        if z3.is_quantifier(x):
            if x.is_lambda():
                r = True; break
            stack.append(x.body()); continue
        if z3.is_app(x):
            if x.decl().kind() in _HARD_KINDS:
                r = True; break
            stack.extend(x.children())
    _HARD[c.get_id()] = r
    _ALIVE.append(c)
    return r


class _Origin(Sym):
    """a Sym that remembers the local name it was called through (for opaque_calls)"""
    __slots__ = ("origin",)

    def __init__(self, t, hint, origin):
        Sym.__init__(self, t, hint)
        self.origin = origin


class _NoMerge(Exception):
    pass


_NOKEY = object()


def _freeze(x):
    if isinstance(x, (list, tuple)):
        return tuple(_freeze(i) for i in x)
    if isinstance(x, (set, frozenset)):
        return frozenset(x)
    return x


def _as_load(t):
    import copy
    n = copy.deepcopy(t)
    for sub in ast.walk(n):
        if hasattr(sub, "ctx"):
            sub.ctx = ast.Load()
    return n


def _is_type_checking(test):
    return (isinstance(test, ast.Attribute) and test.attr == "TYPE_CHECKING") or (
        isinstance(test, ast.Name) and test.id == "TYPE_CHECKING")


def _is_generator(fnode):
    for n in ast.walk(fnode):
        if isinstance(n, (ast.Yield, ast.YieldFrom)):
            # ignore nested defs
            return _owns(fnode, n)
    return False


def _owns(fnode, target):
    stack = list(fnode.body)
    while stack:
        n = stack.pop()
        if n is target:
            return True
        if isinstance(n, (ast.FunctionDef, ast.Lambda, ast.ClassDef)):
            continue
        stack.extend(ast.iter_child_nodes(n))
    return False


_EXPR_CACHE = {}


def _parse_expr(s):
    n = _EXPR_CACHE.get(s)
    if n is None:
        n = _EXPR_CACHE[s] = ast.parse(s.strip(), mode="eval").body
    return n
