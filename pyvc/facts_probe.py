"""Facts probe: run under the interpreter that runs urllib3 (/venv/bin/python) with
PYTHONPATH=<src>. Dumps, as JSON on stdout, what the verifier needs to know about the *running*
program but cannot get from the AST alone: module globals (classified), class hierarchy (MRO),
constructor signatures, constants, compiled regex parse trees.  Nothing here is hand-typed.
"""
from __future__ import annotations
import sys, json, inspect, importlib, re, enum, types, os

MODULES = [
    "urllib3", "urllib3._base_connection", "urllib3._collections", "urllib3._request_methods",
    "urllib3.connection", "urllib3.connectionpool", "urllib3.exceptions", "urllib3.fields",
    "urllib3.filepost", "urllib3.poolmanager", "urllib3.response", "urllib3.util",
    "urllib3.util.connection", "urllib3.util.proxy", "urllib3.util.request", "urllib3.util.response",
    "urllib3.util.retry", "urllib3.util.ssl_", "urllib3.util.ssl_match_hostname",
    "urllib3.util.ssltransport", "urllib3.util.timeout", "urllib3.util.url", "urllib3.util.util",
    "urllib3.util.wait", "urllib3.http2.connection",
]
EXTRA_CLASSES = [
    "builtins.BaseException", "builtins.Exception", "builtins.OSError", "builtins.ValueError",
    "builtins.TypeError", "builtins.AttributeError", "builtins.KeyError", "builtins.IndexError",
    "builtins.LookupError", "builtins.AssertionError", "builtins.RuntimeError", "builtins.StopIteration",
    "builtins.UnicodeError", "builtins.UnicodeEncodeError", "builtins.UnicodeDecodeError",
    "builtins.ArithmeticError", "builtins.ZeroDivisionError", "builtins.OverflowError",
    "builtins.KeyboardInterrupt", "builtins.SystemExit", "builtins.GeneratorExit",
    "builtins.ConnectionError", "builtins.ConnectionResetError", "builtins.ConnectionAbortedError",
    "builtins.ConnectionRefusedError", "builtins.BrokenPipeError", "builtins.TimeoutError",
    "builtins.BlockingIOError", "builtins.InterruptedError", "builtins.NotImplementedError",
    "builtins.MemoryError", "builtins.RecursionError", "builtins.EOFError", "builtins.BufferError",
    "socket.timeout", "socket.gaierror", "socket.herror", "socket.error",
    "ssl.SSLError", "ssl.SSLZeroReturnError", "ssl.SSLWantReadError", "ssl.SSLWantWriteError",
    "ssl.SSLSyscallError", "ssl.SSLEOFError", "ssl.SSLCertVerificationError", "ssl.CertificateError",
    "http.client.HTTPException", "http.client.NotConnected", "http.client.InvalidURL",
    "http.client.ImproperConnectionState", "http.client.CannotSendRequest", "http.client.CannotSendHeader",
    "http.client.ResponseNotReady", "http.client.BadStatusLine", "http.client.LineTooLong",
    "http.client.RemoteDisconnected", "http.client.IncompleteRead", "http.client.UnknownProtocol",
    "http.client.UnknownTransferEncoding", "http.client.UnimplementedFileMode",
    "queue.Empty", "queue.Full", "zlib.error", "io.UnsupportedOperation",
    "builtins.object", "builtins.int", "builtins.bool", "builtins.float", "builtins.str", "builtins.bytes",
    "builtins.bytearray", "builtins.memoryview", "builtins.list", "builtins.tuple", "builtins.dict",
    "builtins.set", "builtins.frozenset", "builtins.type",
    "http.client.HTTPConnection", "http.client.HTTPResponse", "io.IOBase", "io.BytesIO", "io.StringIO",
    "io.TextIOBase", "collections.OrderedDict", "collections.deque", "queue.LifoQueue", "queue.Queue",
    "builtins.Warning", "builtins.DeprecationWarning", "builtins.UserWarning", "builtins.RuntimeWarning", "builtins.ResourceWarning",
    "array.array", "re.Match", "re.Pattern", "_thread.RLock", "_thread.lock", "socket.socket", "ssl.SSLSocket", "ssl.SSLContext",
    "io.BufferedReader", "io.RawIOBase", "io.BufferedIOBase", "email.message.Message", "http.client.HTTPMessage",
    "weakref.finalize", "zlib._ZlibDecompressor", "ipaddress.IPv4Address", "ipaddress.IPv6Address", "types.GeneratorType", "datetime.date",
]

def qual(o):
    m = getattr(o, "__module__", None) or "builtins"
    return f"{m}.{getattr(o, '__qualname__', getattr(o, '__name__', '?'))}"

def const_repr(v, depth=0):
    """JSON description of a constant value, or None if not a plain constant."""
    if v is None: return {"k": "none"}
    if isinstance(v, bool): return {"k": "bool", "v": v}
    if isinstance(v, enum.Enum):
        return {"k": "singleton", "name": f"{qual(type(v))}.{v.name}", "cls": qual(type(v)),
                "int": int(v) if isinstance(v, int) else None}
    if isinstance(v, int): return {"k": "int", "v": v}
    if isinstance(v, float): return {"k": "float", "v": repr(v)}
    if isinstance(v, str): return {"k": "str", "v": v}
    if isinstance(v, bytes): return {"k": "bytes", "v": v.decode("latin-1")}
    if depth < 3 and isinstance(v, (tuple, list, frozenset, set)):
        items = [const_repr(x, depth + 1) for x in (sorted(v, key=repr) if isinstance(v, (set, frozenset)) else v)]
        if all(i is not None for i in items):
            return {"k": type(v).__name__, "items": items}
        return None
    if depth < 3 and isinstance(v, dict):
        ks = [const_repr(k, depth + 1) for k in v]; vs = [const_repr(x, depth + 1) for x in v.values()]
        if all(i is not None for i in ks + vs):
            return {"k": "dict", "keys": ks, "values": vs}
        return None
    return None

def regex_tree(p):
    import re._parser as sp
    def conv(x):
        if isinstance(x, sp.SubPattern): return [conv(i) for i in x.data]
        if isinstance(x, tuple): return [conv(i) for i in x]
        if isinstance(x, list): return [conv(i) for i in x]
        if type(x).__name__ == "_NamedIntConstant": return str(x)   # opcode constants
        if isinstance(x, (int, str)) or x is None: return x
        return str(x)
    pat = p.pattern
    tree = sp.parse(pat, p.flags)
    return {"pattern": pat if isinstance(pat, str) else pat.decode("latin-1"), "bytes": isinstance(pat, bytes),
            "flags": int(p.flags), "tree": conv(tree), "groups": p.groups}

def sig(f):
    try:
        s = inspect.signature(f)
    except (TypeError, ValueError):
        return None
    out = []
    for n, p in s.parameters.items():
        d = None if p.default is inspect._empty else (const_repr(p.default) or {"k": "opaque", "repr": repr(p.default)[:80]})
        out.append({"name": n, "kind": p.kind.name, "has_default": p.default is not inspect._empty, "default": d})
    return out

def main():
    src = os.environ.get("PYVC_SRC", "/repo/src")
    sys.path.insert(0, src)
    import urllib3
    facts = {"python": sys.version, "urllib3_file": urllib3.__file__, "modules": {}, "classes": {}, "singletons": {}}
    classes = {}
    def add_class(c):
        q = qual(c)
        if q in classes: return q
        classes[q] = None
        ent = {"name": c.__name__, "module": c.__module__, "mro": [], "file": None, "own": [], "is_exc": issubclass(c, BaseException)}
        for b in c.__mro__:
            ent["mro"].append(add_class(b) if b is not c else q)
        try:
            ent["file"] = inspect.getsourcefile(c)
        except TypeError:
            pass
        for n, a in c.__dict__.items():
            kind = None
            if isinstance(a, staticmethod): kind = "static"
            elif isinstance(a, classmethod): kind = "classmethod"
            elif isinstance(a, property): kind = "property"
            elif isinstance(a, (types.FunctionType, types.MethodDescriptorType, types.WrapperDescriptorType, types.BuiltinFunctionType)): kind = "method"
            elif isinstance(a, types.ClassMethodDescriptorType): kind = "classmethod"
            elif isinstance(a, (types.GetSetDescriptorType, types.MemberDescriptorType)): kind = "slot"
            elif (cr := const_repr(a)) is not None: kind = "const"
            else: kind = "other"
            e = {"name": n, "kind": kind}
            if kind == "const": e["value"] = const_repr(a)
            if kind == "other":
                e["repr"] = repr(a)[:60]
                if isinstance(a, type): e["class"] = add_class(a)
            ent["own"].append(e)
        if isinstance(c, type) and issubclass(c, tuple) and hasattr(c, "_fields"):
            ent["namedtuple_fields"] = list(c._fields)
            ent["namedtuple_defaults"] = {k: (const_repr(v) or {"k": "opaque"}) for k, v in getattr(c, "_field_defaults", {}).items()}
        init = c.__dict__.get("__init__")
        ent["init_sig"] = sig(c) if isinstance(c, type) else None
        classes[q] = ent
        return q
    for spec in EXTRA_CLASSES:
        mod, _, name = spec.rpartition(".")
        try:
            m = importlib.import_module(mod)
            add_class(getattr(m, name))
        except Exception as e:          # noqa
            facts.setdefault("missing", []).append(spec)
    ids = {}
    for mn in MODULES:
        try:
            m = importlib.import_module(mn)
        except Exception as e:
            facts.setdefault("import_errors", {})[mn] = repr(e); continue
        g = {}
        for n, v in vars(m).items():
            if n.startswith("__") and n.endswith("__") and n != "__version__": continue
            if isinstance(v, type):
                g[n] = {"k": "class", "q": add_class(v)}
            elif isinstance(v, types.ModuleType):
                g[n] = {"k": "module", "name": v.__name__}
            elif isinstance(v, (types.FunctionType, types.BuiltinFunctionType)):
                g[n] = {"k": "function", "q": qual(v), "file": getattr(getattr(v, "__code__", None), "co_filename", None), "sig": sig(v)}
            elif isinstance(v, re.Pattern):
                g[n] = {"k": "regex", **regex_tree(v)}
            else:
                cr = const_repr(v)
                if cr is not None:
                    g[n] = cr
                else:
                    # opaque singleton: identify aliases across modules by id()
                    key = ids.setdefault(id(v), f"{mn}.{n}")
                    g[n] = {"k": "singleton", "name": key, "cls": add_class(type(v)), "repr": repr(v)[:80]}
        facts["modules"][mn] = {"file": getattr(m, "__file__", None), "globals": g}
    facts["classes"] = classes
    import http.client, socket, ssl
    facts["checks"] = {
        "socket.timeout is TimeoutError": socket.timeout is TimeoutError,
        "socket.error is OSError": socket.error is OSError,
        "ssl.CertificateError is SSLCertVerificationError": ssl.CertificateError is ssl.SSLCertVerificationError,
    }
    # regexes used by http.client validation (assumed stdlib contract reads the *running* stdlib)
    facts["stdlib_regex"] = {}
    for n in ("_contains_disallowed_method_pchar_re", "_contains_disallowed_url_pchar_re", "_is_legal_header_name", "_is_illegal_header_value"):
        o = getattr(http.client, n, None)
        if o is None: continue
        p = getattr(o, "__self__", o)
        if isinstance(p, re.Pattern):
            facts["stdlib_regex"][n] = {**regex_tree(p), "method": getattr(o, "__name__", None)}
    json.dump(facts, sys.stdout)

if __name__ == "__main__":
    main()
