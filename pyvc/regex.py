"""sre parse tree -> z3 regular expression for the *acceptance language* of match/fullmatch/search
(DESIGN §2.8).  Trees come from the facts probe (module-level compiled patterns of the running
interpreter) or, for literal patterns passed to re.match/re.compile inside a function, from the
engine interpreter's own sre parser.  Capture groups are not modelled."""
from __future__ import annotations
import z3
from .values import *
from .world import Unsupported

RE = z3.ReSort(z3.StringSort())
_KEEP = []
MAXCP = 0x2FFFF


def _conv(x):
    import re._parser as sp
    if isinstance(x, sp.SubPattern): return [_conv(i) for i in x.data]
    if isinstance(x, (tuple, list)): return [_conv(i) for i in x]
    if type(x).__name__ == "_NamedIntConstant": return str(x)
    if isinstance(x, (int, str)) or x is None: return x
    return str(x)


def parse_literal(pattern, flags=0):
    import re, re._parser as sp
    tree = sp.parse(pattern, flags)
    p = re.compile(pattern, flags)
    return {"pattern": pattern if isinstance(pattern, str) else pattern.decode("latin-1"),
            "bytes": isinstance(pattern, bytes), "flags": int(p.flags), "tree": _conv(tree), "groups": p.groups}


def ch(c):
    return z3.Re(z3.StringVal(chr(c))) if c < 128 and chr(c).isprintable() and chr(c) not in '\\"' else z3.Re(z3.Unit(z3.CharVal(c)))


def rng(a, b):
    return z3.Range(z3.Unit(z3.CharVal(a)), z3.Unit(z3.CharVal(b)))


def union(xs):
    xs = list(xs)
    if not xs:
        return z3.Empty(RE)
    if len(xs) == 1:
        return xs[0]
    return z3.Union(*xs)


def concat(xs):
    xs = list(xs)
    if not xs:
        return z3.Re(z3.StringVal(""))
    if len(xs) == 1:
        return xs[0]
    return z3.Concat(*xs)


SPACE_ASCII = [(9, 13), (32, 32)]
SPACE_UNI = SPACE_ASCII + [(0x1c, 0x1f), (0x85, 0x85), (0xa0, 0xa0), (0x1680, 0x1680), (0x2000, 0x200a), (0x2028, 0x2029),
                           (0x202f, 0x202f), (0x205f, 0x205f), (0x3000, 0x3000)]
DIGIT_ASCII = [(48, 57)]
WORD_ASCII = [(48, 57), (65, 90), (95, 95), (97, 122)]


class Tr:
    def __init__(self, facts):
        self.f = facts
        self.bytes = facts.get("bytes", False)
        self.flags = facts.get("flags", 0)
        self.icase = bool(self.flags & 2)
        self.dotall = bool(self.flags & 16)
        self.ascii = bool(self.flags & 256) or self.bytes
        self.maxc = 255 if self.bytes else MAXCP
        self.allc = rng(0, self.maxc)

    def category(self, name):
        neg = "NOT_" in name
        base = name.replace("NOT_", "").replace("CATEGORY_", "")
        if base == "SPACE":
            r = SPACE_ASCII if self.ascii else SPACE_UNI
        elif base == "DIGIT":
            if not self.ascii:
                raise Unsupported("\\d in a unicode pattern (Nd table not loaded)")
            r = DIGIT_ASCII
        elif base == "WORD":
            if not self.ascii:
                raise Unsupported("\\w in a unicode pattern")
            r = WORD_ASCII
        else:
            raise Unsupported(f"regex category {name}")
        return self.neg_ranges(r) if neg else list(r)

    def neg_ranges(self, ranges):
        out, prev = [], 0
        for a, b in sorted(ranges):
            if a > prev:
                out.append((prev, a - 1))
            prev = max(prev, b + 1)
        if prev <= self.maxc:
            out.append((prev, self.maxc))
        return out

    def fold(self, ranges):
        """IGNORECASE over ASCII letters (urllib3's patterns only use ASCII literals with re.I)."""
        if not self.icase:
            return ranges
        out = list(ranges)
        for a, b in ranges:
            lo, hi = max(a, 65), min(b, 90)
            if lo <= hi: out.append((lo + 32, hi + 32))
            lo, hi = max(a, 97), min(b, 122)
            if lo <= hi: out.append((lo - 32, hi - 32))
        return out

    def set_ranges(self, items):
        ranges, negate = [], False
        for it in items:
            op = it[0]
            if op == "NEGATE":
                negate = True
            elif op == "LITERAL":
                ranges.append((it[1], it[1]))
            elif op == "RANGE":
                ranges.append((it[1][0], it[1][1]))
            elif op == "CATEGORY":
                ranges += self.category(it[1])
            else:
                raise Unsupported(f"regex set item {op}")
        ranges = self.fold(ranges)
        return self.neg_ranges(ranges) if negate else ranges

    def seq(self, items):
        return concat([self.node(it) for it in items])

    def node(self, it):
        op, av = it[0], it[1]
        if op == "LITERAL":
            return union(rng(a, b) for a, b in self.fold([(av, av)]))
        if op == "NOT_LITERAL":
            return union(rng(a, b) for a, b in self.neg_ranges(self.fold([(av, av)])))
        if op == "ANY":
            return self.allc if self.dotall else union(rng(a, b) for a, b in self.neg_ranges([(10, 10)]))
        if op == "IN":
            return union(rng(a, b) for a, b in self.set_ranges(av))
        if op in ("MAX_REPEAT", "MIN_REPEAT", "POSSESSIVE_REPEAT"):
            lo, hi, sub = av
            r = self.seq(sub)
            if hi == "MAXREPEAT" or (isinstance(hi, int) and hi >= 4294967295):
                if lo == 0: return z3.Star(r)
                if lo == 1: return z3.Plus(r)
                return z3.Concat(z3.Loop(r, lo, lo), z3.Star(r))
            return z3.Loop(r, lo, hi)
        if op == "SUBPATTERN":
            return self.seq(av[3])
        if op == "ATOMIC_GROUP":
            return self.seq(av)
        if op == "BRANCH":
            return union(self.seq(b) for b in av[1])
        if op == "CATEGORY":
            return union(rng(a, b) for a, b in self.category(av))
        if op == "AT":
            raise Unsupported(f"regex anchor {av} in the middle of a pattern")
        raise Unsupported(f"regex op {op}")

    def language(self, mode):
        return self.lang_items(list(self.f["tree"]), mode)

    def lang_items(self, items, mode):
        """z3 regex for the set of strings on which `.match` / `.fullmatch` / `.search` succeeds."""
        items = list(items)
        if len(items) == 1 and items[0][0] == "BRANCH":
            # alternatives may carry their own anchors: the acceptance language is the union
            return union(self.lang_items(list(alt), mode) for alt in items[0][1][1])
        start = end = None
        while items and items[0][0] == "AT" and items[0][1] in ("AT_BEGINNING", "AT_BEGINNING_STRING"):
            start = items.pop(0)[1]
        while items and items[-1][0] == "AT" and items[-1][1] in ("AT_END", "AT_END_STRING"):
            end = items.pop()[1]
        if self.flags & 8 and (start == "AT_BEGINNING" or end == "AT_END"):
            raise Unsupported("MULTILINE anchors")
        core = self.seq(items)
        anything = z3.Star(self.allc)
        nl = ch(10)
        if end == "AT_END_STRING" or mode == "fullmatch":
            tail = z3.Re(z3.StringVal(""))
            if mode == "fullmatch" and end == "AT_END":
                # fullmatch must consume everything; `$` then only matches at the very end
                tail = z3.Re(z3.StringVal(""))
        elif end == "AT_END":
            tail = z3.Option(nl)              # Python's `$`: at the end, or just before a final newline
        else:
            tail = anything
        head = z3.Re(z3.StringVal("")) if (mode in ("match", "fullmatch") or start) else anything
        return z3.Concat(head, core, tail)


_CACHE = {}


def language(facts, mode):
    key = (facts["pattern"], facts.get("flags"), facts.get("bytes"), mode)
    if key not in _CACHE:
        _CACHE[key] = Tr(facts).language(mode)
    return _CACHE[key]


def group_info(facts):
    """[(mandatory?, subtree)] per capture group, in group-number order.  A group is mandatory when it
    sits in the top-level sequence (or inside mandatory groups) - then it participates in every match."""
    out = {}
    def walk(items, mandatory):
        for it in items:
            op, av = it[0], it[1]
            if op == "SUBPATTERN":
                gid = av[0]
                if gid is not None:
                    out[gid] = (mandatory, av[3])
                walk(av[3], mandatory)
            elif op in ("MAX_REPEAT", "MIN_REPEAT", "POSSESSIVE_REPEAT"):
                lo, hi, sub = av
                walk(sub, mandatory and lo >= 1)
            elif op == "BRANCH":
                for b in av[1]:
                    walk(b, False)
            elif op == "ATOMIC_GROUP":
                walk(av, mandatory)
            elif op in ("ASSERT", "ASSERT_NOT"):
                walk(av[1], False)
    walk(list(facts["tree"]), True)
    return [out[i] for i in sorted(out)]


MATCH_INFO = {}      # id of the loc term of a match object -> (facts, subject string term, is_bytes)


def match_info(t):
    """find the match-object allocation a V term refers to"""
    seen = set()
    stack = [t]
    while stack:
        x = stack.pop()
        if x.get_id() in seen:
            continue
        seen.add(x.get_id())
        if x.get_id() in MATCH_INFO:
            return MATCH_INFO[x.get_id()]
        if z3.is_app(x):
            stack.extend(x.children())
    return None


def m_groups(I, st, args, kwargs, fr, k):
    recv = args[0]
    info = match_info(recv.t)
    if info is None:
        raise Unsupported("groups() on an unknown match object")
    facts, subj, isb, loc = info
    tr = Tr(facts)
    wrap = mk_byt if isb else mk_str
    outs = []
    gi = group_info(facts)
    vals = []
    for n, (mand, sub) in enumerate(gi, 1):
        g = z3.String(I.w.fresh(f"grp{n}"))
        try:
            if tree_size(sub) > 60:
                raise Unsupported("big")
            lang = tr.seq([x for x in sub if not (x[0] == "AT")])
            c = z3.And(z3.InRe(g, lang), z3.Contains(subj, g))
        except Unsupported:
            c = z3.Contains(subj, g)
        if mand:
            st.fact(c)
            vals.append(Sym(wrap(g)))
        else:
            isn = z3.Bool(I.w.fresh(f"grp{n}_unset"))
            st.fact(z3.Or(isn, c))
            vals.append(Sym(z3.If(isn, NONE, wrap(g))))
    I.stats["builtins_used"].add("regex capture groups: each group is None (if optional) or a substring of the subject matching the group's own sub-pattern (over-approximation; priorities not modelled)")
    return vals


def b_match_groups(I, st, args, kwargs, fr, k):
    return k(st, Tup(m_groups(I, st, args, kwargs, fr, k)))


def b_match_group(I, st, args, kwargs, fr, k):
    recv = args[0]
    info = match_info(recv.t)
    if info is None:
        raise Unsupported("group() on an unknown match object")
    facts, subj, isb, loc = info
    idxs = [B_concrete(I, st, a) for a in args[1:]] or [0]
    res = []
    for i in idxs:
        if i == 0:
            g = z3.String(I.w.fresh("grp0"))
            st.fact(z3.Contains(subj, g))
            try:
                st.fact(z3.InRe(g, Tr(facts).seq([x for x in facts["tree"] if x[0] != "AT"])))
            except Unsupported:
                pass
            res.append(Sym((mk_byt if isb else mk_str)(g)))
        elif isinstance(i, int):
            vals = m_groups(I, st, args[:1], {}, fr, k)
            if not (1 <= i <= len(vals)):
                return I.raise_(st, "builtins.IndexError", "no such group")
            res.append(vals[i - 1])
        else:
            raise Unsupported("group(name)")
    return k(st, res[0] if len(res) == 1 else Tup(res))


def b_match_span(I, st, args, kwargs, fr, k):
    recv = args[0]
    info = match_info(recv.t)
    if info is None:
        raise Unsupported("span() on an unknown match object")
    facts, subj, isb, loc = info
    a = z3.Int(I.w.fresh("span_a")); b = z3.Int(I.w.fresh("span_b"))
    st.fact(z3.Or(z3.And(a == -1, b == -1), z3.And(0 <= a, a <= b, b <= z3.Length(subj))))
    I.stats["builtins_used"].add("match.span(n): (-1,-1) or 0 <= start <= end <= len(subject) (over-approximation)")
    return k(st, Tup([Sym(mk_int(a)), Sym(mk_int(b))]))


def B_concrete(I, st, v):
    return I.B.concrete_key(I, st, v)


def tree_size(x):
    if isinstance(x, (list, tuple)):
        return 1 + sum(tree_size(i) for i in x)
    return 0


BIG = 400


def call(I, st, rx, name, args, kwargs, fr, k):
    """pattern.match / fullmatch / search (string) -> match object or None (groups unmodelled)."""
    if name not in ("match", "fullmatch", "search"):
        raise Unsupported(f"regex method {name}")
    s = args[0]
    t = s.t
    big = tree_size(rx.facts["tree"]) > BIG
    lang = None if big else language(rx.facts, name)
    want_bytes = rx.facts.get("bytes", False)
    def ok(s2):
        sv = get_y(t) if want_bytes else get_s(t)
        loc = I.alloc(s2, "re.Match")
        MATCH_INFO[loc.get_id()] = (rx.facts, sv, want_bytes, loc)
        _KEEP.append(loc)
        if big:
            acc = z3.Bool(I.w.fresh("re_accepts"))
            I.stats["builtins_used"].add("regex %r...: too large to translate, match outcome nondeterministic (over-approximation)" % rx.facts["pattern"][:40])
        else:
            acc = z3.InRe(sv, lang)
            I.stats["builtins_used"].add("regex acceptance language of %r" % rx.facts["pattern"][:60])
        res = z3.If(acc, mk_ref(loc), NONE)
        return k(s2, Sym(res, hint="re.Match"))
    cond = is_byt(t) if want_bytes else is_str(t)
    return I.branch(st, cond, ok, lambda s2: I.raise_(s2, "builtins.TypeError", "regex on wrong type"))
