"""fork-based parallel map: children inherit the parent's memory (z3 terms included), results come
back pickled through pipes.  Works from inside another forked child (no daemon restriction)."""
import os, pickle, select, traceback


def fork_map(fn, items, nproc, deadline_s=None):
    import time, signal
    items = list(items)
    results = [None] * len(items)
    if nproc <= 1 or len(items) <= 1:
        return [("ok", fn(x)) for x in items]
    pending = list(enumerate(items))
    running = {}          # fd -> (idx, pid, chunks)
    while pending or running:
        while pending and len(running) < nproc:
            idx, it = pending.pop(0)
            r, w = os.pipe()
            pid = os.fork()
            if pid == 0:
                os.close(r)
                if deadline_s is not None:
                    os.setpgid(0, 0)
                try:
                    data = pickle.dumps(("ok", fn(it)))
                except BaseException as e:      # noqa
                    data = pickle.dumps(("err", "".join(traceback.format_exception(type(e), e, e.__traceback__))[-4000:]))
                with os.fdopen(w, "wb") as f:
                    f.write(data)
                os._exit(0)
            os.close(w)
            running[r] = (idx, pid, [], time.time())
        if deadline_s is not None:
            now = time.time()
            for fd in list(running):
                idx, pid, chunks, t_start = running[fd]
                if now - t_start > deadline_s:
                    try:
                        os.killpg(pid, signal.SIGKILL)
                    except OSError:
                        try:
                            os.kill(pid, signal.SIGKILL)
                        except OSError:
                            pass
                    os.close(fd)
                    os.waitpid(pid, 0)
                    del running[fd]
                    results[idx] = ("err", f"TIMEOUT: exceeded the wall-clock limit of {deadline_s}s")
        ready, _, _ = select.select(list(running), [], [], 1.0)
        for fd in ready:
            chunk = os.read(fd, 1 << 20)
            idx, pid, chunks, _t = running[fd]
            if chunk:
                chunks.append(chunk)
                continue
            os.close(fd)
            os.waitpid(pid, 0)
            del running[fd]
            try:
                results[idx] = pickle.loads(b"".join(chunks))
            except Exception as e:      # noqa
                results[idx] = ("err", f"child died without result: {e!r}")
    return results


def fork_call(fn, deadline_s):
    """Run fn() in a forked child with a hard wall-clock limit (z3's sequence solver sometimes ignores
    its own timeout).  Returns ("ok", value) | ("err", text) | ("killed", None)."""
    import time, signal
    r, w = os.pipe()
    pid = os.fork()
    if pid == 0:
        os.close(r)
        try:
            data = pickle.dumps(("ok", fn()))
        except BaseException as e:      # noqa
            data = pickle.dumps(("err", "".join(traceback.format_exception(type(e), e, e.__traceback__))[-4000:]))
        with os.fdopen(w, "wb") as f:
            f.write(data)
        os._exit(0)
    os.close(w)
    chunks = []
    t_end = time.time() + deadline_s
    res = None
    while True:
        left = t_end - time.time()
        if left <= 0:
            try:
                os.kill(pid, signal.SIGKILL)
            except OSError:
                pass
            res = ("killed", None)
            break
        ready, _, _ = select.select([r], [], [], min(left, 1.0))
        if ready:
            chunk = os.read(r, 1 << 20)
            if not chunk:
                break
            chunks.append(chunk)
    os.close(r)
    os.waitpid(pid, 0)
    if res is not None:
        return res
    try:
        return pickle.loads(b"".join(chunks))
    except Exception as e:      # noqa
        return ("err", f"child died without result: {e!r}")
