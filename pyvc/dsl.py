"""Sidecar contract DSL.  Contract clauses are *strings* holding Python expressions: the prover
parses them with `ast` and translates them with the same evaluator that executes the real code;
the replay layer `eval`s the same text natively.  (DESIGN §2.13 sketched lambdas; strings are the
same thing without the fragility of recovering a lambda's source.)

Names available inside clauses: the function's parameters, `result`, `exc`, `old(e)`, `fresh(x)`,
`implies(a,b)`, `iff(a,b)`, `isinstance`, class names of the facts table, every function of
/verif/specs, and ghost variables (`ghost.name`).
"""
from __future__ import annotations


class Raises:
    def __init__(self, classes, when=None, ensures=None, modifies=None, iff=False, name=None):
        self.classes = [classes] if isinstance(classes, str) else list(classes)
        self.when, self.ensures, self.modifies, self.iff, self.name = when, ensures, modifies, iff, name


class Contract:
    def __init__(self, q):
        self.q = q
        self.param_types = {}        # name -> class name | 'int' | 'str' | ... ; documents + assumes isinstance
        self.requires_l = []         # [(name, expr)]
        self.ensures_l = []          # [(name, expr)]
        self.exc_ensures_l = []      # [(name, expr)] must hold on every exceptional exit
        self.raises_l = []           # [Raises]
        self.raises_any = False      # no raises-only obligation (function may raise anything)
        self.modifies_l = None       # None = unchecked frame; [] = pure
        self.allocates = True
        self.invariants = {}         # loop ordinal -> dict(inv=[(name, expr)], ...)
        self.site_asserts = []       # [(callee_name, name, expr)]
        self.mode = "verify"         # 'verify' (body checked against it) | 'assumed' (dependency)
        self.inline_calls = set()    # callee qualnames to inline rather than use by contract
        self.ghost_l = []
        self.prop = None
        self.props = set()
        self.notes = []
        self.assumes_l = []          # [(name, expr)] explicit, listed assumptions
        self.unroll = {}
        self.replay = None
        self.variant = None
        self.key = q
        self.ldict_params = {}
        self.tags = {}

    def params(self, *names):
        """parameter names of a dependency that has no source (assumed contracts on stdlib leaves)"""
        self.param_names = list(names); return self

    def ghost(self, name, ty="any"):
        if (name, ty) not in self.ghost_l:
            self.ghost_l.append((name, ty))
        return self

    def ldict(self, param, keys):
        """the parameter is a dict with exactly these (concrete) keys and symbolic values"""
        self.ldict_params[param] = list(keys); return self

    def types(self, **kw):
        self.param_types.update(kw); return self

    def requires(self, expr, name=None):
        self.requires_l.append((name or f"pre{len(self.requires_l)+1}", expr)); return self

    def assume(self, expr, name):
        """An assumption that is *listed in the evidence* (never silently)."""
        self.assumes_l.append((name, expr)); return self

    def ensures(self, expr, name=None):
        self.ensures_l.append((name or f"post{len(self.ensures_l)+1}", expr)); return self

    def exc_ensures(self, expr, name=None):
        self.exc_ensures_l.append((name or f"excpost{len(self.exc_ensures_l)+1}", expr)); return self

    def raises(self, classes, when=None, ensures=None, modifies=None, iff=False, name=None):
        self.raises_l.append(Raises(classes, when, ensures, modifies, iff, name)); return self

    def modifies(self, *locs):
        self.modifies_l = list(locs); return self

    def invariant(self, loop, expr, name=None, **kw):
        d = self.invariants.setdefault(loop, {"inv": [], "opts": {}})
        d["inv"].append((name or f"inv{len(d['inv'])+1}", expr)); d["opts"].update(kw); return self

    def site_assert(self, callee, expr, name=None):
        self.site_asserts.append((callee, name or f"site{len(self.site_asserts)+1}", expr)); return self

    def tag(self, prop, *names):
        """these clauses belong to `prop` only (untagged clauses are checked under every property of the contract)"""
        for n in names:
            self.tags.setdefault(n, set()).add(prop)
        return self

    def assumed(self, note=None):
        self.mode = "assumed"
        if note: self.notes.append(note)
        return self

    def inline(self, *qs):
        self.inline_calls.update(qs); return self


class Registry:
    def __init__(self):
        self.contracts = {}
        self.field_hints = {}
        self.plain_fields = set()     # (class, attribute): a C-level / property attribute modelled as a plain instance field (listed as an assumption)
        self.lemmas = []
        self.checks = []      # extra python-level checks (finite-set obligations etc.)

    def contract(self, q, prop=None, variant=None):
        """`variant`: the same function verified under a second configuration (e.g. another concrete
        key set of a **kwargs dict); registered as q@variant, never used at call sites."""
        key = q if variant is None else f"{q}@{variant}"
        c = self.contracts.get(key)
        if c is None:
            c = self.contracts[key] = Contract(q)
            c.variant = variant
            c.key = key
        if prop:
            c.prop = c.prop or prop
            c.props.add(prop)
        return c

    def field(self, cls, name, hint):
        self.field_hints[(cls, name)] = hint

    def plain_field(self, cls, *names):
        for n in names:
            self.plain_fields.add((cls, n))


REG = Registry()
contract = REG.contract
field = REG.field
plain_field = REG.plain_field
