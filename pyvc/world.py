"""World: everything that is fixed for one verification run — the facts of the running
interpreter, the parsed real source (re-read on every run), class ids, contracts, spec functions.
"""
from __future__ import annotations
import ast, json, os, subprocess, sys, hashlib, time
import z3
from .values import *

VERIF = os.path.dirname(os.path.dirname(os.path.abspath(__file__)))
SRC = os.environ.get("PYVC_SRC", "/repo/src")
RUNPY = "/venv/bin/python"


class Unsupported(Exception):
    """A construct outside the verified subset: the function is UNDECIDED, never proved/violated."""


class SpecError(Exception):
    """A contract/spec expression could not be evaluated (engine or sidecar error: exit 3)."""


class FuncInfo:
    __slots__ = ("q", "node", "module", "cls", "kind", "file", "sha", "lines")

    def __init__(self, q, node, module, cls, kind, file, sha, lines):
        self.q, self.node, self.module, self.cls, self.kind, self.file, self.sha, self.lines = (
            q, node, module, cls, kind, file, sha, lines)


def _decorator_kind(node):
    kind = "method"
    for d in node.decorator_list:
        name = d.attr if isinstance(d, ast.Attribute) else getattr(d, "id", None)
        if isinstance(d, ast.Call):
            name = getattr(d.func, "attr", getattr(d.func, "id", None))
        if name in ("property", "cached_property"):
            kind = "property"
        elif name == "staticmethod":
            kind = "static"
        elif name == "classmethod":
            kind = "classmethod"
        elif name == "contextmanager":
            kind = "contextmanager"
        elif name == "overload":
            kind = "overload"
        elif name == "setter":
            kind = "setter"
    return kind


class World:
    def __init__(self, src=None, extra_sources=()):
        self.src = src or SRC
        self.t0 = time.time()
        self.facts = self._probe()
        self.funcs: dict[str, FuncInfo] = {}
        self.setters: dict[str, FuncInfo] = {}
        self.class_nodes = {}
        self.instance_fields = {}
        self.module_files = {}
        self._parse_sources()
        self.class_ids = {}
        self.class_mro = {}
        self._build_classes()
        self.singletons = {}
        self.singleton_cls = {}
        self.contracts = {}
        self.specs: dict[str, FuncInfo] = {}
        self.spec_consts = {}
        self.field_hints = {}
        self.counter = 0
        self.obligations = []
        self.assumptions = set()
        self.dropped = {}

    # ------------------------------------------------------------------ facts
    def _probe(self):
        env = dict(os.environ, PYVC_SRC=self.src, PYTHONPATH=self.src, PYTHONDONTWRITEBYTECODE="1")
        p = subprocess.run([RUNPY, os.path.join(VERIF, "pyvc", "facts_probe.py")], env=env,
                           capture_output=True, text=True, timeout=120)
        if p.returncode != 0:
            raise RuntimeError("facts probe failed: " + p.stderr[-2000:])
        f = json.loads(p.stdout)
        want = os.path.realpath(os.path.join(self.src, "urllib3", "__init__.py"))
        if os.path.realpath(f["urllib3_file"]) != want:
            raise RuntimeError(f"facts probe imported {f['urllib3_file']}, expected {want}")
        return f

    def _parse_sources(self):
        for mn, m in self.facts["modules"].items():
            path = m["file"]
            if not path or not path.endswith(".py"):
                continue
            text = open(path).read()
            tree = ast.parse(text)
            self.module_files[mn] = (path, text, tree)
            self._collect(mn, tree, text, path, prefix=mn, cls=None)

    def _collect(self, mn, tree, text, path, prefix, cls):
        for node in tree.body if hasattr(tree, "body") else []:
            if isinstance(node, (ast.FunctionDef,)):
                kind = _decorator_kind(node) if cls else "function"
                if kind == "overload":
                    continue
                seg = ast.get_source_segment(text, node) or ""
                fi = FuncInfo(f"{prefix}.{node.name}", node, mn, cls, kind, path,
                              hashlib.sha256(seg.encode()).hexdigest(), (node.lineno, node.end_lineno))
                if kind == "setter":
                    self.setters[fi.q] = fi
                else:
                    self.funcs[fi.q] = fi
            elif isinstance(node, ast.ClassDef):
                q = f"{prefix}.{node.name}"
                self.class_nodes[q] = (node, mn)
                flds = self.instance_fields.setdefault(q, set())
                for sub in ast.walk(node):
                    tgts = []
                    if isinstance(sub, ast.Assign):
                        tgts = sub.targets
                    elif isinstance(sub, (ast.AnnAssign, ast.AugAssign)):
                        tgts = [sub.target]
                    for t_ in tgts:
                        for x in ast.walk(t_):
                            if isinstance(x, ast.Attribute) and isinstance(x.value, ast.Name) and x.value.id == "self":
                                flds.add(x.attr)
                self._collect(mn, node, text, path, prefix=q, cls=q)
            elif isinstance(node, ast.If):
                # e.g. `if not hasattr(...): def _tunnel` / try-import fallbacks: collect both arms
                for sub in (node.body, node.orelse):
                    self._collect(mn, ast.Module(body=sub, type_ignores=[]), text, path, prefix, cls)
            elif isinstance(node, ast.Try):
                for sub in (node.body, node.orelse, *[h.body for h in node.handlers]):
                    self._collect(mn, ast.Module(body=sub, type_ignores=[]), text, path, prefix, cls)

    def add_source_file(self, path, modname):
        """Register functions from a non-urllib3 file (e.g. the running stdlib's _collections_abc)."""
        text = open(path).read()
        tree = ast.parse(text)
        self.module_files[modname] = (path, text, tree)
        self._collect(modname, tree, text, path, prefix=modname, cls=None)

    # ---------------------------------------------------------------- classes
    def _build_classes(self):
        """Class ids are a DFS pre-order of the primary-base tree, so that `isinstance` becomes a few
        integer interval tests instead of a disjunction over hundreds of ids."""
        mros = {}
        for q, ent in self.facts["classes"].items():
            mros[q] = ent["mro"]
        # one synthetic fresh direct subclass per exception class: makes "every exception class"
        # exhaustive for single inheritance (DESIGN 2.5)
        for q, ent in list(self.facts["classes"].items()):
            if ent.get("is_exc"):
                mros["~" + q] = ["~" + q] + ent["mro"]
        children = {}
        roots = []
        for q, mro in mros.items():
            if len(mro) > 1:
                children.setdefault(mro[1], []).append(q)
            else:
                roots.append(q)
        order = []
        def dfs(q):
            order.append(q)
            for ch in sorted(children.get(q, [])):
                dfs(ch)
        for r in sorted(roots):
            dfs(r)
        for q in mros:
            if q not in order:
                order.append(q)
        for i, q in enumerate(order, 1):
            self.class_ids[q] = i
            self.class_mro[q] = mros[q]
        self.subclasses = {}
        for q, mro in self.class_mro.items():
            for b in mro:
                self.subclasses.setdefault(b, []).append(q)
        self.sub_intervals = {}
        for b, subs in self.subclasses.items():
            ids = sorted(self.class_ids[x] for x in subs)
            iv = []
            for i in ids:
                if iv and iv[-1][1] == i - 1:
                    iv[-1][1] = i
                else:
                    iv.append([i, i])
            self.sub_intervals[b] = iv

    def cls_in(self, c, bases):
        """z3 Bool: class id term `c` denotes a subclass of one of `bases`."""
        alts = []
        for b in bases:
            for lo, hi in self.sub_intervals.get(b, []):
                alts.append(c == lo if lo == hi else z3.And(c >= lo, c <= hi))
        return z3.Or(alts) if alts else z3.BoolVal(False)

    def cid(self, q):
        return self.class_ids[q]

    def resolve_class(self, name):
        """Accept a short or qualified class name."""
        if name in self.class_ids:
            return name
        cands = [q for q in self.class_ids if q.endswith("." + name) and not q.startswith("~")]
        if len(cands) == 1:
            return cands[0]
        pref = [q for q in cands if q.startswith("urllib3.")]
        if len(pref) == 1:
            return pref[0]
        b = "builtins." + name
        if b in self.class_ids:
            return b
        raise SpecError(f"ambiguous or unknown class name {name!r}: {cands}")

    def is_subclass(self, q, base):
        return base in self.class_mro.get(q, ())

    def isinstance_term(self, t, bases):
        """z3 Bool: isinstance(t, bases) for the real class hierarchy of the running interpreter."""
        alts = []
        for b in bases:
            if b == "builtins.object":
                return z3.BoolVal(True)
            if b == "builtins.int":
                alts.append(is_intlike(t))
            elif b == "builtins.bool":
                alts.append(is_bool(t))
            elif b == "builtins.float":
                alts.append(is_flt(t))
            elif b == "builtins.str":
                alts.append(is_str(t))
            elif b == "builtins.bytes":
                alts.append(is_byt(t))
            elif b == "builtins.NoneType":
                alts.append(is_none(t))
            else:
                alts.append(z3.And(is_ref(t), self.cls_in(cls_of(get_loc(t)), [b])))
        return z3.Or(alts) if alts else z3.BoolVal(False)

    def find_attr(self, cls_q, name, after=None):
        """Resolve `name` along the real MRO. Returns (owner_class, entry) or None."""
        mro = self.class_mro.get(cls_q)
        if mro is None:
            return None
        if cls_q.startswith("~"):
            mro = mro[1:]
        started = after is None
        for c in mro:
            if not started:
                if c == after:
                    started = True
                continue
            ent = self.facts["classes"].get(c)
            if not ent:
                continue
            for e in ent["own"]:
                if e["name"] == name:
                    return c, e
        return None

    def fresh(self, base="v"):
        self.counter += 1
        return f"{base}!{self.counter}"

    def singleton_loc(self, name):
        if name not in self.singletons:
            self.singletons[name] = -(100 + len(self.singletons))
        return self.singletons[name]

    def class_loc(self, q):
        return -(100000 + self.class_ids[q])

    # -------------------------------------------------------------- sidecars
    def load_specs(self, path):
        """Spec functions: pure Python defs in /verif/specs — parsed (never imported by the prover)."""
        text = open(path).read()
        tree = ast.parse(text)
        mn = "specs." + os.path.splitext(os.path.basename(path))[0]
        for node in tree.body:
            if isinstance(node, ast.FunctionDef):
                self.specs[node.name] = FuncInfo(node.name, node, mn, None, "spec", path, "", (node.lineno, node.end_lineno))
            elif isinstance(node, ast.Assign) and len(node.targets) == 1 and isinstance(node.targets[0], ast.Name):
                try:
                    self.spec_consts[node.targets[0].id] = ast.literal_eval(node.value)
                except Exception:
                    pass

    def func_evidence(self, q):
        fi = self.funcs[q]
        return {"function": q, "file": fi.file, "lines": list(fi.lines), "sha256": fi.sha}
