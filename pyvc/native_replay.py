"""L1 native replay (runs under the interpreter that runs urllib3): rebuild the arguments of the
counter-model, call the REAL function, evaluate the violated contract clause natively.
exit 1 = failure reproduced, 0 = not reproduced, 2 = cannot replay this obligation natively."""
import sys, os, json, ast, importlib, glob, types, copy

VERIF = os.path.dirname(os.path.dirname(os.path.abspath(__file__)))


def main():
    rec = json.load(open(sys.argv[1]))
    src = os.environ.get("PYVC_SRC", rec.get("src", "/repo/src"))
    sys.path.insert(0, src)
    import urllib3
    q = rec["function_qualname"]
    model = rec["model"] or {}
    names = rec["class_names"]; sing = rec["singletons"]
    # ---- resolve the function
    parts = q.split(".")
    obj = None
    for i in range(len(parts), 0, -1):
        try:
            obj = importlib.import_module(".".join(parts[:i])); rest = parts[i:]; break
        except ImportError:
            continue
    owner = None
    for p in rest:
        owner, obj = obj, (obj.__dict__[p] if isinstance(obj, type) and p in obj.__dict__ else getattr(obj, p))
    # ---- spec namespace
    ns = {}
    for mn in list(sys.modules):
        if mn.startswith("urllib3"):
            for k, v in vars(sys.modules[mn]).items():
                if not k.startswith("__"):
                    ns.setdefault(k, v)
    for p in sorted(glob.glob(os.path.join(VERIF, "specs", "*.py"))):
        code = compile(open(p).read(), p, "exec")
        exec(code, ns)
    cache = {}
    def build(v):
        if isinstance(v, dict) and "bytes" in v:
            return v["bytes"].encode("latin-1")
        if isinstance(v, dict) and "ref" in v:
            loc = v["ref"]
            if loc in cache: return cache[loc]
            if str(loc) in sing:
                nm = sing[str(loc)]
                mod, _, attr = nm.rpartition(".")
                for cand in (nm,):
                    ps = cand.split(".")
                    for i in range(len(ps), 0, -1):
                        try:
                            o = importlib.import_module(".".join(ps[:i]))
                            for a in ps[i:]: o = getattr(o, a)
                            cache[loc] = o; return o
                        except Exception:
                            continue
                raise SystemExit(2)
            cn = names.get(str(v.get("cls")), "")
            if cn.startswith("~"): cn = cn[1:]
            mod, _, cname = cn.rpartition(".")
            try:
                cls = getattr(importlib.import_module(mod), cname)
            except Exception:
                cls = type("Opaque", (), {})
            try:
                o = cls.__new__(cls)
            except Exception:
                o = object()
            cache[loc] = o
            for f, fv in (v.get("fields") or {}).items():
                try: object.__setattr__(o, f, build(fv))
                except Exception: pass
            return o
        return v
    args = {k: build(v) for k, v in model.items() if not k.startswith("$") and not k.startswith("ghost.")}
    ghost = types.SimpleNamespace(**{k[6:]: v for k, v in model.items() if k.startswith("ghost.")})
    if hasattr(ghost, "clock"):
        import time
        state = {"t": float(ghost.clock)}
        def mono():
            return state["t"]
        time.monotonic = mono
    pre_ids = {id(o) for o in cache.values()}
    clause = rec.get("clause")
    # pre-evaluate old(...) sub-expressions
    olds = {}
    env = dict(ns); env.update(args); env["ghost"] = ghost
    env["implies"] = lambda a, b: (not a) or b
    env["iff"] = lambda a, b: bool(a) == bool(b)
    env["fresh"] = lambda x: id(x) not in pre_ids
    import re as _re
    env["matches"] = lambda pat, s_: isinstance(s_, type(pat)) and _re.fullmatch(pat, s_) is not None
    tree = None
    if clause:
        tree = ast.parse(clause, mode="eval")
        class Old(ast.NodeTransformer):
            def visit_Call(self, n):
                self.generic_visit(n)
                if isinstance(n.func, ast.Name) and n.func.id == "old":
                    key = f"__old{len(olds)}"
                    try:
                        olds[key] = copy.copy(eval(compile(ast.Expression(n.args[0]), "<old>", "eval"), env))
                    except Exception as e:
                        olds[key] = None
                    return ast.copy_location(ast.Name(id=key, ctx=ast.Load()), n)
                if isinstance(n.func, ast.Name) and n.func.id == "implies":
                    return ast.copy_location(ast.BoolOp(op=ast.Or(), values=[ast.UnaryOp(op=ast.Not(), operand=n.args[0]), n.args[1]]), n)
                return n
        tree = ast.fix_missing_locations(Old().visit(tree))
    # ---- call
    call_args = dict(args)
    import inspect
    fn = obj
    raw = owner.__dict__.get(rest[-1]) if isinstance(owner, type) else None
    try:
        if isinstance(raw, property):
            result = raw.fget(call_args["self"])
        elif isinstance(raw, classmethod):
            cargs = {k: v for k, v in call_args.items() if k != "cls"}
            result = getattr(owner, rest[-1])(**cargs)
        elif isinstance(raw, staticmethod):
            result = raw.__func__(**call_args)
        else:
            result = fn(**call_args)
        outcome = ("return", result)
    except BaseException as e:
        outcome = ("raise", e)
    print("native call of", q, "with", {k: repr(v)[:80] for k, v in args.items()}, "->", outcome[0], repr(outcome[1])[:200])
    kind = rec.get("kind")
    name = rec["obligation"].split("/")[-1]
    if kind == "post" and name.startswith("must-raise"):
        print("contract demands an exception here; got", outcome[0])
        sys.exit(1 if outcome[0] == "return" else 0)
    if kind == "raises":
        print("contract allows no such exception here; got", outcome[0], type(outcome[1]).__name__)
        sys.exit(1 if outcome[0] == "raise" else 0)
    if kind == "post" and tree is not None:
        if outcome[0] != "return":
            print("path not reproduced (exception)"); sys.exit(0)
        env.update(olds); env["result"] = outcome[1]
        try:
            ok = eval(compile(tree, "<clause>", "eval"), env)
        except Exception as e:
            print("clause raised natively:", repr(e)); sys.exit(1)
        print("clause", clause, "=>", bool(ok))
        sys.exit(0 if ok else 1)
    sys.exit(2)


if __name__ == "__main__":
    try:
        main()
    except SystemExit as e:
        # exit 10 = failure reproduced on the real code; anything else = not reproduced / cannot replay
        code = e.code if isinstance(e.code, int) else 2
        sys.exit(10 if code == 1 else (0 if code == 0 else 2))
    except BaseException:
        import traceback
        traceback.print_exc()
        sys.exit(2)
