"""Semantics of Python built-ins / stdlib leaves the executor knows (DESIGN §2.3, §4.1).

Everything here is either exact Python semantics over the V encoding, or a stated
over-approximation (fresh value + constraints) whose name is recorded in Interp.stats so that it
shows up in the evidence as an assumption.
"""
from __future__ import annotations
import ast
import os
import z3
from .values import *
from .state import *
from .world import Unsupported, SpecError
from .engine import Frame, _NOKEY, _val, _parse_expr

BUILTIN_NAMES = {
    "len", "min", "max", "isinstance", "issubclass", "hasattr", "getattr", "setattr", "print", "repr", "id", "hash",
    "reversed", "sorted", "enumerate", "zip", "range", "any", "all", "sum", "abs", "iter", "next", "map", "filter",
    "callable", "ord", "chr", "hex", "divmod", "super", "vars", "NotImplemented", "format", "round", "memoryview_",
}
MODULE_NAMES = {"email.utils", "os.path", "http.client", "urllib.parse", "re._parser"}
USER_LEN = {}        # class qualname -> fn(I, st, loc) -> z3 Int   (classes defining __len__)

str_upper = z3.Function("str_upper", z3.StringSort(), z3.StringSort())
str_lower = z3.Function("str_lower", z3.StringSort(), z3.StringSort())
str_is_float = z3.Function("str_is_float", z3.StringSort(), z3.BoolSort())
str_float = z3.Function("str_float", z3.StringSort(), z3.RealSort())
str_is_int = z3.Function("str_is_int", z3.StringSort(), z3.IntSort(), z3.BoolSort())
str_int = z3.Function("str_int", z3.StringSort(), z3.IntSort(), z3.IntSort())
pow2 = z3.Function("pow2", z3.IntSort(), z3.IntSort())
fmt_fn = z3.Function("fmt", z3.IntSort(), V, z3.StringSort())


def note(I, name):
    I.stats["builtins_used"].add(name)


# ----------------------------------------------------------------------------- helpers
def concrete_key(I, st, v):
    """Python constant of a Value if it is concrete (used for dict keys / set items)."""
    if isinstance(v, Sym):
        t = z3.simplify(v.t)
        if z3.is_app(t) and t.decl().name() == "str" and z3.is_string_value(t.arg(0)):
            return t.arg(0).as_string()
        if z3.is_app(t) and t.decl().name() == "int" and z3.is_int_value(t.arg(0)):
            return t.arg(0).as_long()
        if z3.is_app(t) and t.decl().name() == "none":
            return None
        if z3.is_app(t) and t.decl().name() == "bool" and (z3.is_true(t.arg(0)) or z3.is_false(t.arg(0))):
            return z3.is_true(t.arg(0))
        if z3.is_app(t) and t.decl().name() == "byt" and z3.is_string_value(t.arg(0)):
            return t.arg(0).as_string().encode("latin-1")
    return _NOKEY


def concrete_items(I, st, v):
    if isinstance(v, Tup):
        return list(v.items)
    if isinstance(v, LList):
        return list(st.lheap[v.id])
    if isinstance(v, LSet):
        return [I.const_val(x) for x in sorted(v.items, key=repr)]
    if isinstance(v, LDict):
        return [I.const_val(x) for x in st.lheap[v.id].keys()]
    return None


def concrete_dict(I, st, v):
    if isinstance(v, LDict):
        return dict(st.lheap[v.id])
    return None


def new_list(I, st, items):
    lid = I.w.fresh("L")
    st.lheap[lid] = list(items)
    st.version += 1
    return LList(lid)


def new_dict(I, st, d):
    lid = I.w.fresh("D")
    st.lheap[lid] = dict(d)
    st.version += 1
    return LDict(lid)


def as_sym(I, st, v):
    if isinstance(v, Sym):
        return v
    return Sym(I.term(st, v))


def type_error(I, st, msg=""):
    return I.raise_(st, "builtins.TypeError", msg)


# -------------------------------------------------------------------------- operators
def binop(I, st, op, a, b, fr, k):
    if isinstance(op, ast.Add):
        if isinstance(a, Tup) and isinstance(b, Tup):
            return k(st, Tup(a.items + b.items))
        if isinstance(a, LList) and isinstance(b, (LList, Tup)):
            bi = concrete_items(I, st, b)
            return k(st, new_list(I, st, st.lheap[a.id] + bi))
        if (isinstance(a, Tup) and isinstance(b, Sym)) or (isinstance(a, Sym) and isinstance(b, Tup)):
            return seq_concat(I, st, a, b, fr, k)
    if isinstance(op, ast.BitOr) and isinstance(a, LSet) and isinstance(b, LSet):
        return k(st, LSet(a.items | b.items, a.frozen))
    if isinstance(op, ast.Mod) and isinstance(a, Sym) and isinstance(concrete_key(I, st, a), bytes) and isinstance(b, Tup):
        r_ = _bytes_percent(I, st, concrete_key(I, st, a), b.items)
        if r_ is not None:
            return k(st, r_)
    if isinstance(op, ast.Mod) and isinstance(a, Sym):
        # "fmt" % args : opaque string (content irrelevant to every contract); assumed total
        ta = a.t
        if z3.is_true(z3.simplify(is_str(ta))) or z3.is_true(z3.simplify(is_byt(ta))):
            note(I, "str.__mod__ opaque,total")
            s = z3.String(I.w.fresh("fmt"))
            return k(st, Sym(mk_str(s) if z3.is_true(z3.simplify(is_str(ta))) else mk_byt(s)))
    if not (isinstance(a, Sym) and isinstance(b, Sym)):
        raise Unsupported(f"binop {type(op).__name__} on {a!r},{b!r}")
    ta, tb = a.t, b.t
    both_num = z3.And(is_numeric(ta), is_numeric(tb))
    both_int = z3.And(is_intlike(ta), is_intlike(tb))
    ia, ib, ra, rb = as_int(ta), as_int(tb), as_real(ta), as_real(tb)
    if isinstance(op, (ast.Add, ast.Sub, ast.Mult)):
        f = {ast.Add: lambda x, y: x + y, ast.Sub: lambda x, y: x - y, ast.Mult: lambda x, y: x * y}[type(op)]
        num = z3.If(both_int, mk_int(f(ia, ib)), mk_flt(f(ra, rb)))
        if fr.spec:
            # total (logical) semantics in specs: arithmetic on non-numbers is an unspecified value
            unspec = z3.Function("uf_binop_" + type(op).__name__, V, V, V)(ta, tb)
            if isinstance(op, ast.Add):
                unspec = z3.If(z3.And(is_str(ta), is_str(tb)), mk_str(z3.Concat(get_s(ta), get_s(tb))), unspec)
            return k(st, Sym(z3.If(both_num, num, unspec)))
        outs = []
        def knum(s2):
            return k(s2, Sym(z3.simplify(num)))
        def other(s2):
            if isinstance(op, ast.Add):
                both_str = z3.And(is_str(ta), is_str(tb))
                both_byt = z3.And(is_byt(ta), is_byt(tb))
                return I.branch(s2, both_str, lambda s3: k(s3, Sym(mk_str(z3.Concat(get_s(ta), get_s(tb))))),
                                lambda s3: I.branch(s3, both_byt, lambda s4: k(s4, Sym(mk_byt(z3.Concat(get_y(ta), get_y(tb))))),
                                                    lambda s4: seq_concat(I, s4, a, b, fr, k)))
            return type_error(I, s2, f"unsupported operand types for {type(op).__name__}")
        return I.branch(st, both_num, knum, other)
    if isinstance(op, ast.Pow):
        # only 2 ** n (DESIGN §2.3): uninterpreted pow2, positive, monotone, pow2(n+1) = 2*pow2(n)
        base = z3.simplify(ta)
        if z3.eq(base, pyint(2)):
            n = as_int(tb)
            p = pow2(n)
            def ok(s2):
                s2.fact(p >= 1, z3.Implies(n >= 1, p >= 2), z3.Implies(n == 0, p == 1), z3.Implies(n == 1, p == 2))
                note(I, "2**n as uninterpreted pow2 (>=1; n>=1 => >=2)")
                return k(s2, Sym(mk_int(p)))
            return I.branch(st, z3.And(is_intlike(tb), n >= 0), ok, lambda s2: unsupported_path(I, s2, "2 ** negative/non-int"))
        raise Unsupported("** with base other than literal 2")
    if isinstance(op, (ast.FloorDiv, ast.Mod)):
        def ok(s2):
            if isinstance(op, ast.FloorDiv):
                # Python floor division; z3 div is floor for positive divisor, handle sign
                q = z3.If(ib > 0, ia / ib, -((-ia) / ib) if False else z3.If(ia % ib == 0, ia / ib, (ia / ib)))
                # z3's integer div rounds so that remainder is non-negative; for ib>0 equals floor. ib<0: floor(a/b) = -ceil(a/-b)
                q = z3.If(ib > 0, ia / ib, z3.If((-ia) % (-ib) == 0, (-ia) / (-ib), (-ia) / (-ib)))
                return k(s2, Sym(mk_int(q)))
            m = z3.If(ib > 0, ia % ib, -((-ia) % (-ib)))
            return k(s2, Sym(mk_int(m)))
        return I.branch(st, both_int,
                        lambda s2: I.branch(s2, ib != 0, ok, lambda s3: I.raise_(s3, "builtins.ZeroDivisionError")),
                        lambda s2: unsupported_path(I, s2, "// or % on non-int"))
    if isinstance(op, ast.Div):
        def ok(s2):
            return k(s2, Sym(mk_flt(ra / rb)))
        return I.branch(st, both_num, lambda s2: I.branch(s2, rb != 0, ok, lambda s3: I.raise_(s3, "builtins.ZeroDivisionError")),
                        lambda s2: type_error(I, s2, "/"))
    raise Unsupported(f"binop {type(op).__name__}")


def unsupported_path(I, st, why):
    """A path the engine cannot model; only an error if it is feasible."""
    if I.feasible(st):
        # the feasibility oracle leaves string-laden conjuncts out: before giving up on the whole function, ask once
        # with the complete path condition (unsat = the path does not exist)
        sv = z3.Solver(); sv.set("timeout", 5000)
        sv.add(*I.singleton_axioms()); sv.add(*st.pc)
        if sv.check() == z3.unsat:
            return []
        raise Unsupported(why)
    return []


def seq_concat(I, st, a, b, fr, k):
    """tuple + tuple where at least one side is a heap tuple of symbolic length."""
    ta, tb = I.term(st, a), I.term(st, b)
    tup = lambda t: I.w.isinstance_term(t, ["builtins.tuple"])
    def ok(s2):
        la, lb = get_loc(ta), get_loc(tb)
        na, nb = s2.read(LEN, la), s2.read(LEN, lb)
        loc = I.alloc(s2, "builtins.tuple")
        ea, eb = s2.read(ELS, la), s2.read(ELS, lb)
        i = z3.Int(I.w.fresh("i"))
        newa = z3.Lambda([i], z3.If(i < na, z3.Select(ea, i), z3.Select(eb, i - na)))
        s2.fact(na >= 0, nb >= 0)
        s2.write(ELS, loc, newa)
        s2.write(LEN, loc, na + nb)
        return k(s2, Sym(mk_ref(loc), hint="builtins.tuple"))
    return I.branch(st, z3.And(tup(ta), tup(tb)), ok, lambda s2: type_error(I, s2, "+ on unsupported operands"))


def v_eq(I, st, a, b):
    """z3 Bool for Python `a == b` on scalar values (identity for references)."""
    ta, tb = a.t, b.t
    return z3.If(z3.And(is_numeric(ta), is_numeric(tb)), as_real(ta) == as_real(tb), ta == tb)


def compare(I, st, op, a, b, fr, k):
    if isinstance(op, (ast.Is, ast.IsNot)):
        if isinstance(a, Sym) and isinstance(b, Sym):
            c = a.t == b.t
            # identity of small ints/strs is an implementation detail; urllib3 uses `is` only with
            # None / sentinels / False / True / objects
        elif isinstance(a, ClassV) and isinstance(b, ClassV):
            c = z3.BoolVal(a.q == b.q)
        elif (isinstance(a, Sym) and isinstance(b, LSet) and b.frozen) or (isinstance(b, Sym) and isinstance(a, LSet) and a.frozen):
            c = as_sym(I, st, a).t == as_sym(I, st, b).t
        else:
            c = z3.BoolVal(a is b)
        if isinstance(op, ast.IsNot):
            c = z3.Not(c)
        return k(st, Sym(mk_bool(z3.simplify(c))))
    if isinstance(op, (ast.In, ast.NotIn)):
        return contains(I, st, b, a, fr, lambda s2, c: k(s2, Sym(mk_bool(z3.simplify(z3.Not(c) if isinstance(op, ast.NotIn) else c)))))
    if isinstance(op, (ast.Eq, ast.NotEq)):
        if isinstance(a, Sym) and isinstance(b, Sym):
            c = v_eq(I, st, a, b)
            ha, hb = a.hint, b.hint
            for h in (ha, hb):
                if h and I.w.find_attr(h, "__eq__") and I.w.find_attr(h, "__eq__")[0] != "builtins.object":
                    if h in ("builtins.tuple",):
                        raise Unsupported("== on heap tuples")
                    r = I.w.find_attr(h, "__eq__")
                    raise Unsupported(f"== on objects with custom __eq__ ({h})")
        elif isinstance(a, Tup) and isinstance(b, Tup):
            if len(a.items) != len(b.items):
                c = z3.BoolVal(False)
            else:
                c = z3.And([v_eq(I, st, as_sym(I, st, x), as_sym(I, st, y)) for x, y in zip(a.items, b.items)] or [z3.BoolVal(True)])
        elif isinstance(a, ClassV) and isinstance(b, ClassV):
            c = z3.BoolVal(a.q == b.q)
        elif isinstance(a, LSet) and isinstance(b, LSet):
            c = z3.BoolVal(a.items == b.items)
        else:
            raise Unsupported(f"== between {a!r} and {b!r}")
        if isinstance(op, ast.NotEq):
            c = z3.Not(c)
        return k(st, Sym(mk_bool(z3.simplify(c))))
    if isinstance(a, Tup) and isinstance(b, Tup):
        ca = [concrete_key(I, st, x) for x in a.items]; cb = [concrete_key(I, st, x) for x in b.items]
        if _NOKEY not in ca and _NOKEY not in cb:
            import operator
            r_ = {ast.Lt: operator.lt, ast.LtE: operator.le, ast.Gt: operator.gt, ast.GtE: operator.ge}[type(op)](tuple(ca), tuple(cb))
            return k(st, Sym(mk_bool(z3.BoolVal(r_))))
    if not (isinstance(a, Sym) and isinstance(b, Sym)):
        raise Unsupported(f"ordering comparison on {a!r},{b!r}")
    if a.hint == "datetime.date" or b.hint == "datetime.date":
        note(I, "ordering of datetime.date values: an opaque bool (the clock is outside the model)")
        return k(st, Sym(mk_bool(z3.Bool(I.w.fresh("date_cmp")))))
    ta, tb = a.t, b.t
    ra, rb = as_real(ta), as_real(tb)
    rel = {ast.Lt: lambda x, y: x < y, ast.LtE: lambda x, y: x <= y, ast.Gt: lambda x, y: x > y, ast.GtE: lambda x, y: x >= y}[type(op)]
    both_num = z3.And(is_numeric(ta), is_numeric(tb))
    # two integers are compared as integers: the real-valued encoding of `n < k < n + 1` sends the arithmetic solver into an
    # unbounded branch-and-bound (observed: unknown after 30 s on a three-literal formula)
    both_int_ = z3.And(is_intlike(ta), is_intlike(tb))
    num_rel = z3.If(both_int_, rel(as_int(ta), as_int(tb)), rel(ra, rb)) if not os.environ.get("PYVC_NOINTCMP") else rel(ra, rb)
    if fr.spec:
        sa, sb = get_s(ta), get_s(tb)
        cs = {ast.Lt: sa < sb, ast.LtE: sa <= sb, ast.Gt: sb < sa, ast.GtE: sb <= sa}[type(op)]
        return k(st, Sym(mk_bool(z3.If(both_num, num_rel, z3.And(is_str(ta), is_str(tb), cs)))))
    def knum(s2):
        return k(s2, Sym(mk_bool(z3.simplify(num_rel))))
    def other(s2):
        both_str = z3.And(is_str(ta), is_str(tb))
        def kstr(s3):
            sa, sb = get_s(ta), get_s(tb)
            c = {ast.Lt: sa < sb, ast.LtE: sa <= sb, ast.Gt: sb < sa, ast.GtE: sb <= sa}[type(op)]
            return k(s3, Sym(mk_bool(c)))
        # anything else: objects are assumed not to define ordering => TypeError (listed assumption)
        note(I, "ordering comparison on non-numbers raises TypeError (opaque objects define no __lt__)")
        return I.branch(s2, both_str, kstr, lambda s3: type_error(I, s3, "ordering comparison"))
    return I.branch(st, both_num, knum, other)


def contains(I, st, container, item, fr, k):
    """k(st, z3 Bool)"""
    if isinstance(container, (Tup, LList)):
        items = concrete_items(I, st, container)
        it = as_sym(I, st, item)
        return k(st, z3.Or([v_eq(I, st, it, as_sym(I, st, x)) for x in items] or [z3.BoolVal(False)]))
    if isinstance(container, LSet):
        it = as_sym(I, st, item)
        return k(st, z3.Or([v_eq(I, st, it, Sym(I.const_term(x))) for x in sorted(container.items, key=repr)] or [z3.BoolVal(False)]))
    if isinstance(container, LDict):
        it = as_sym(I, st, item)
        return k(st, z3.Or([v_eq(I, st, it, Sym(I.const_term(x))) for x in st.lheap[container.id].keys()] or [z3.BoolVal(False)]))
    if isinstance(container, Sym):
        t = container.t
        it = as_sym(I, st, item)
        if container.hint and container.hint in USER_CONTAINS:
            return USER_CONTAINS[container.hint](I, st, container, it, fr, k)
        isset = I.w.isinstance_term(t, ["builtins.set", "builtins.frozenset", "builtins.dict"])
        def kset(s2):
            m_ = z3.Select(s2.read(HAS, get_loc(t)), it.t)
            if I.images and not fr.spec:
                image_witness(I, s2, t, it.t, m_)
            return k(s2, m_)
        def other(s2):
            isstr = z3.And(is_str(t), is_str(it.t))
            def kstr(s3):
                return k(s3, z3.Contains(get_s(t), get_s(it.t)))
            def kseq(s3):
                loc = get_loc(t)
                n = s3.read(LEN, loc)
                arr = s3.read(ELS, loc)
                j = z3.Int(I.w.fresh("j"))
                return k(s3, z3.Exists([j], z3.And(0 <= j, j < n, z3.Select(arr, j) == it.t)))
            return I.branch(s3 if False else s2, isstr, kstr,
                            lambda s3: I.branch(s3, I.is_seq(t), kseq, lambda s4: unsupported_path(I, s4, f"`in` on {container!r}")))
        return I.branch(st, isset, kset, other)
    raise Unsupported(f"`in` on {container!r}")


USER_CONTAINS = {}


# ------------------------------------------------------------------ attribute on Sym
PRIM_METHODS = {"upper", "lower", "startswith", "endswith", "strip", "rstrip", "lstrip", "split", "rsplit", "join",
                "encode", "decode", "format", "replace", "find", "isdigit", "partition", "rpartition", "count",
                "splitlines", "title", "casefold", "index", "translate", "hex", "isascii", "zfill", "items", "keys",
                "values", "get", "copy", "append", "pop", "popleft", "appendleft", "extend", "insert", "clear",
                "update", "setdefault", "add", "discard", "remove", "popitem", "move_to_end", "getvalue", "write",
                "read", "seek", "tell", "close", "fileno", "group", "groups", "groupdict", "is_integer", "bit_length",
                "rfind", "isascii", "isalpha", "isalnum", "isspace", "islower", "isupper", "capitalize", "swapcase", "center", "ljust", "rjust",
                "expandtabs", "removeprefix", "removesuffix", "span", "start", "end"}


def field_hint(I, hint, name):
    if hint is None:
        return None
    for c in I.w.class_mro.get(hint, [hint]):
        h = I.reg.field_hints.get((c, name)) or I.reg.field_hints.get((c.split(".")[-1], name))
        if h:
            return I.w.resolve_class(h) if not h.startswith("$") else h
    return None


def narrow(I, st, v, name):
    """Type narrowing from the path condition: the (unique, most general) class that defines `name`
    and that `v` is known to be an instance of on this path (after an isinstance() test)."""
    key = name
    owners = NARROW_CACHE.get(key)
    if owners is None:
        owners = []
        for q, ent in I.w.facts["classes"].items():
            if any(e["name"] == name and e["kind"] in ("method", "property", "static", "classmethod") for e in ent["own"]):
                if q.startswith(("urllib3.", "http.client.", "queue.", "socket.", "ssl.", "io.", "_io.", "collections.")):
                    owners.append(q)
        for q, flds in I.w.instance_fields.items():
            if name in flds and q in I.w.class_ids and q not in owners:
                owners.insert(0, q)
        # most specific definers first: the value's known class decides which definition applies
        owners.sort(key=lambda q: -len(I.w.class_mro.get(q, ())))
        NARROW_CACHE[key] = owners
    t = v.t
    ck = (t.get_id(), name)
    if ck in NARROW_POS:
        return NARROW_POS[ck]
    for q in owners:
        if not I.feasible(st, z3.Not(I.w.isinstance_term(t, [q]))):
            NARROW_POS[ck] = q
            _NKEEP.append(t)
            return q
    # the feasibility oracle leaves string-laden conjuncts out (e.g. the disjunction recorded by a state merge): ask once
    # more with the complete path condition before giving up (entailment proved = narrowing is sound)
    if not z3.is_app_of(t, z3.Z3_OP_ITE) or not owners:
        return None             # only merged values (If-terms) need the second look
    nk = (t.get_id(), name, len(st.pc))
    if nk in NARROW_NEG:
        return None
    sv = z3.Solver(); sv.set("timeout", 3000)
    sv.add(*I.singleton_axioms()); sv.add(*st.pc)
    for q in owners:
        sv.push(); sv.add(z3.Not(I.w.isinstance_term(t, [q])))
        r_ = sv.check(); sv.pop()
        if r_ == z3.unsat:
            NARROW_POS[ck] = q
            _NKEEP.append(t)
            return q
    NARROW_NEG.add(nk); _NKEEP.append(t)
    return None


NARROW_CACHE = {}
NARROW_POS = {}
NARROW_NEG = set()
_NKEEP = []


def getattr_sym(I, st, v, name, fr, k):
    t = v.t
    hint = v.hint
    duck = getattr(I.cur, "duck_attrs", None) if I.cur is not None else None
    if duck and hint is None and name in duck:
        # attribute of a caller-supplied (duck-typed) object: an arbitrary value, possibly absent
        note(I, f"duck-typed attribute .{name}: an arbitrary value (None when absent via getattr default); calls go through the assumed duck contracts")
        def okd(s2):
            val = s2.read("$duck_" + name, get_loc(t))
            s2.fact(z3.Implies(is_ref(val), get_loc(val) < s2.frontier))
            return k(s2, Sym(val, None))
        has = duck_has(name, t)
        if fr.spec:
            val = st.read("$duck_" + name, get_loc(t))
            return k(st, Sym(z3.If(has, val, NONE), None))      # spec reading: getattr(x, name, None)
        return I.branch(st, has, okd, lambda s2: I.raise_(s2, "builtins.AttributeError", f".{name} on None/primitive"))
    if hint is None and not z3.is_false(z3.simplify(is_ref(t))) and (name not in PRIM_METHODS or not I.feasible(st, z3.Not(is_ref(t)))):
        hint = narrow(I, st, v, name)
        if hint is not None:
            v = Sym(t, hint)
            if I.w.find_attr(hint, name) is None:
                def ok_(s2):
                    loc = get_loc(t)
                    val = s2.read(name, loc)
                    s2.fact(z3.Implies(is_ref(val), get_loc(val) < s2.frontier))
                    return k(s2, Sym(val, field_hint(I, hint, name)))
                return ok_(st)
    if hint:
        r = I.w.find_attr(hint, name)
        if r is not None and (r[0], name) in I.reg.plain_fields:
            note(I, f"{r[0]}.{name}: property modelled as a plain instance field (sidecar plain_field)")
            r = None
        if r is not None:
            owner, ent = r
            if ent["kind"] == "property":
                fv = I._member(st, owner, {**ent, "kind": "method"}, None, fr)
                if fr.spec:
                    return I.call(st, fv, [v], {}, fr, k)
                return I.branch(st, is_none(t), lambda s2: I.raise_(s2, "builtins.AttributeError", f"None.{name}"),
                                lambda s2: I.call(s2, fv, [v], {}, fr, k))
            if ent["kind"] == "const" and _is_instance_field(I, hint, name):
                # a class-level default that methods also assign on the instance (`x: bool = False` + `self.x = ...`):
                # the instance attribute decides; modelled as a field (the default of a never-assigned instance is not used)
                note(I, f"{owner}.{name}: class-level default shadowed by instance assignments - read as an instance field")
            elif ent["kind"] in ("method", "static", "classmethod", "const"):
                if fr.spec:
                    return k(st, I._member(st, owner, ent, v, fr))
                return I.branch(st, is_none(t), lambda s2: I.raise_(s2, "builtins.AttributeError", f"None.{name}"),
                                lambda s2: k(s2, I._member(s2, owner, ent, v, fr)))
            if ent["kind"] == "slot":
                pass        # C-level instance slot (e.g. BaseException.__traceback__): a field read
            elif ent["kind"] == "other" and not _is_instance_field(I, hint, name):
                return k(st, I._member(st, owner, ent, v, fr))
        if name == "__class__":
            return k(st, ClassV(hint))
    else:
        # unknown static type: primitive methods dispatch at call time on the runtime tag
        if name in PRIM_METHODS:
            s = z3.simplify(is_ref(t))
            if z3.is_true(z3.simplify(z3.Or(is_str(t), is_byt(t)))):
                return k(st, BoundV(v, None, name))
            if not z3.is_true(s):
                if fr.spec and not I.feasible(st, z3.Or(is_str(t), is_byt(t))):
                    pass          # spec on a non-string (e.g. a None literal in a dead branch): plain field read below
                else:
                    return k(st, BoundV(v, None, name))
            else:
                from . import strings as _S
                if name in _S.REF_METHODS and I.feasible(st, I.w.isinstance_term(t, _S.DICTLIKE + ["builtins.list", "builtins.tuple", "builtins.set", "builtins.frozenset", "collections.deque"])):
                    return k(st, BoundV(v, None, name))
    def ok(s2):
        loc = get_loc(t)
        val = s2.read(name, loc)
        s2.fact(z3.Implies(is_ref(val), get_loc(val) < s2.frontier))
        vol = getattr(I.cur, "volatile_fields", None) if I.cur is not None else None
        if vol and name in vol and not fr.spec and fr.depth == 0:
            # rely: another thread may have set this field to None at any time (monotone: once None, stays None)
            b_ = z3.Bool(I.w.fresh("gone_" + name))
            prev = s2.ghost.get("$gone_" + name)
            if prev is not None:
                s2.fact(z3.Implies(get_b(prev.t), b_))
            s2.ghost["$gone_" + name] = Sym(mk_bool(b_))
            note(I, f"volatile field .{name}: every read may observe None once another thread cleared it (rely: monotone to None)")
            val = z3.If(b_, NONE, val)
        return k(s2, Sym(val, field_hint(I, hint, name)))
    if fr.spec:
        return ok(st)         # specs have total (logical) semantics: a field of a non-object is an unspecified value
    return I.branch(st, is_ref(t), ok, lambda s2: I.raise_(s2, "builtins.AttributeError", f".{name} on None/primitive"))


def duck_has(name, t):
    """hasattr(x, name) for a duck-typed attribute: an uninterpreted predicate of the object (objects only)"""
    return z3.And(is_ref(t), z3.Function("duckhas_" + name, z3.IntSort(), z3.BoolSort())(get_loc(t)))


def _is_instance_field(I, hint, name):
    if field_hint(I, hint, name) is not None:
        return True
    ent = I.w.facts["classes"].get(hint) or {}
    if name in (ent.get("namedtuple_fields") or ()):
        return True
    if any(name in I.w.instance_fields.get(c, ()) for c in I.w.class_mro.get(hint, [hint])):
        return True         # some method of the class (or a base) assigns self.<name>
    return any((c, name) in INSTANCE_FIELDS for c in I.w.class_mro.get(hint, [hint]))


INSTANCE_FIELDS = {("builtins.BaseException", "__traceback__"), ("builtins.BaseException", "__cause__"),
                   ("builtins.BaseException", "__context__"), ("builtins.BaseException", "args")}


def call_sym(I, st, f, args, kwargs, fr, k):
    """Call of a value we only know as a reference (a class looked up in a table, a user callback).
    Allowed only when the sidecar declares how to treat it: `c.opaque_calls = {'<local name>': 'ctor'}`:
    'ctor' = allocates and returns a fresh object, modifies nothing that existed, may raise any Exception."""
    mode = getattr(I.cur, "opaque_calls", {}).get(getattr(f, "origin", None)) if I.cur else None
    if mode is not None and mode.startswith("contract:"):
        # a duck-typed callable (a method of a caller-supplied object): used at the ASSUMED contract the sidecar names
        from . import dsl as _dsl
        cc = _dsl.REG.contracts.get(mode[9:])
        if cc is None or cc.mode != "assumed":
            raise Unsupported(f"opaque call `{f.origin}`: no assumed contract {mode[9:]}")
        note(I, f"call through `{f.origin}`: duck-typed callable used at the assumed contract {mode[9:]}")
        return I.apply_contract(st, cc, None, list(args), dict(kwargs), fr, k)
    if mode != "ctor":
        raise Unsupported(f"call of symbolic callable {f!r}")
    note(I, f"call through `{f.origin}`: opaque constructor (fresh result, no effect on existing objects, may raise any Exception)")
    st.events.append(("Call", {"callee": f, "args": list(args), "kwargs": dict(kwargs)}))
    outs = []
    s2 = st.fork()
    exc = I.mk_exc(s2, "~builtins.Exception")
    s2.fact(I.w.isinstance_term(exc.t, ["builtins.Exception"]))
    outs.append(Out(s2, "raise", Sym(exc.t, None)))
    loc = z3.Int(I.w.fresh("a"))
    st.fact(loc >= st.frontier)
    st.frontier = loc + 1
    st.version += 1
    return outs + k(st, Sym(mk_ref(loc)))


# ------------------------------------------------------------------------- subscripts
def getitem(I, st, c, key, fr, k):
    if isinstance(c, (Tup, LList)):
        items = concrete_items(I, st, c)
        ck = concrete_key(I, st, key)
        if isinstance(ck, int) and not isinstance(ck, bool):
            if -len(items) <= ck < len(items):
                return k(st, items[ck])
            return I.raise_(st, "builtins.IndexError")
        raise Unsupported("symbolic index into concrete sequence")
    if isinstance(c, LDict):
        ck = concrete_key(I, st, key)
        if ck is _NOKEY:
            raise Unsupported("symbolic key into local dict")
        d = st.lheap[c.id]
        if ck in d:
            return k(st, d[ck])
        return I.raise_(st, "builtins.KeyError", repr(ck))
    if isinstance(c, Sym):
        t = c.t
        if c.hint and c.hint in USER_GETITEM:
            return USER_GETITEM[c.hint](I, st, c, key, fr, k)
        kt = as_sym(I, st, key).t
        if fr.spec:
            # specs have total (logical) semantics: an element of a sequence / mapping, an unspecified value otherwise
            loc = get_loc(t)
            n = st.read(LEN, loc); i = as_int(kt); idx = z3.If(i < 0, i + n, i)
            sval = z3.Select(st.read(ELS, loc), idx)
            mval = z3.Select(st.read(MAP, loc), kt)
            isd = I.w.isinstance_term(t, ["builtins.dict"])
            return k(st, Sym(z3.If(isd, mval, sval), field_hint(I, c.hint, "$item")))
        def kseq(s2):
            loc = get_loc(t)
            n = s2.read(LEN, loc)
            i = as_int(kt)
            idx = z3.If(i < 0, i + n, i)
            def ok(s3):
                val = z3.Select(s3.read(ELS, loc), idx)
                s3.fact(z3.Implies(is_ref(val), get_loc(val) < s3.frontier))
                return k(s3, Sym(val, field_hint(I, c.hint, "$item")))
            return I.branch(s2, z3.And(is_intlike(kt), idx >= 0, idx < n), ok, lambda s3: I.raise_(s3, "builtins.IndexError"))
        def other(s2):
            isd = I.w.isinstance_term(t, ["builtins.dict"])
            def kd(s3):
                loc = get_loc(t)
                has = z3.Select(s3.read(HAS, loc), kt)
                def ok(s4):
                    val = z3.Select(s4.read(MAP, loc), kt)
                    s4.fact(z3.Implies(is_ref(val), get_loc(val) < s4.frontier))
                    return k(s4, Sym(val, field_hint(I, c.hint, "$item")))
                return I.branch(s3, has, ok, lambda s4: I.raise_(s4, "builtins.KeyError"))
            def kstr(s3):
                isb = z3.is_true(z3.simplify(is_byt(t)))
                raise Unsupported("indexing str/bytes")
            return I.branch(s2, isd, kd, lambda s3: unsupported_path(I, s3, f"subscript on {c!r}"))
        return I.branch(st, I.is_seq(t), kseq, other)
    raise Unsupported(f"subscript on {c!r}")


USER_GETITEM = {}


def setitem(I, st, c, key, v, fr, k):
    if isinstance(c, LDict):
        ck = concrete_key(I, st, key)
        if ck is _NOKEY:
            raise Unsupported("symbolic key into local dict")
        st.lheap[c.id][ck] = v
        st.version += 1
        return k(st, None)
    if isinstance(c, LList):
        ck = concrete_key(I, st, key)
        items = st.lheap[c.id]
        if isinstance(ck, int) and -len(items) <= ck < len(items):
            items[ck] = v
            st.version += 1
            return k(st, None)
        raise Unsupported("list index store")
    if isinstance(c, Sym):
        if c.hint and c.hint in USER_SETITEM:
            return USER_SETITEM[c.hint](I, st, c, key, v, fr, k)
        t = c.t
        kt = as_sym(I, st, key).t
        vt = I.term(st, v)
        isd = I.w.isinstance_term(t, ["builtins.dict"])
        def kd(s2):
            dict_store(I, s2, get_loc(t), kt, vt)
            return k(s2, None)
        return I.branch(st, isd, kd, lambda s2: unsupported_path(I, s2, f"item store on {c!r}"))
    raise Unsupported(f"item store on {c!r}")


USER_SETITEM = {}
NEWEST = "$newest"     # Array(Int, V): per dict, the key inserted last (dicts keep insertion order)


def dict_store(I, st, loc, kt, vt):
    """dict[k] = v on a heap dict (membership/map arrays; order arrays handled by ordered-dict model)."""
    has = st.read(HAS, loc)
    had = z3.Select(has, kt)
    st.write(HAS, loc, z3.Store(has, kt, z3.BoolVal(True)))
    st.write(MAP, loc, z3.Store(st.read(MAP, loc), kt, vt))
    n = st.read(LEN, loc)
    st.write(LEN, loc, z3.If(had, n, n + 1))
    # insertion order, as far as it is used: the most recently INSERTED key (an overwrite keeps the key's position)
    st.write(NEWEST, loc, z3.If(had, st.read(NEWEST, loc), kt))


def delitem(I, st, c, key, fr, k):
    if isinstance(c, LDict):
        ck = concrete_key(I, st, key)
        if ck is _NOKEY:
            raise Unsupported("symbolic key into local dict")
        if ck in st.lheap[c.id]:
            del st.lheap[c.id][ck]
            st.version += 1
            return k(st, None)
        return I.raise_(st, "builtins.KeyError")
    if isinstance(c, Sym):
        if c.hint and c.hint in USER_DELITEM:
            return USER_DELITEM[c.hint](I, st, c, key, fr, k)
        t = c.t
        kt = as_sym(I, st, key).t
        def kd(s2):
            loc = get_loc(t)
            has = s2.read(HAS, loc)
            def ok(s3):
                s3.write(HAS, loc, z3.Store(has, kt, z3.BoolVal(False)))
                s3.write(LEN, loc, s3.read(LEN, loc) - 1)
                return k(s3, None)
            return I.branch(s2, z3.Select(has, kt), ok, lambda s3: I.raise_(s3, "builtins.KeyError"))
        return I.branch(st, I.w.isinstance_term(t, ["builtins.dict"]), kd, lambda s2: unsupported_path(I, s2, f"del item on {c!r}"))
    raise Unsupported(f"del item on {c!r}")


USER_DELITEM = {}


def getslice(I, st, c, lo, hi, step, fr, k):
    if isinstance(c, (Tup, LList)):
        items = concrete_items(I, st, c)
        l, h, s = (concrete_key(I, st, x) for x in (lo, hi, step))
        if _NOKEY in (l, h, s):
            raise Unsupported("symbolic slice of concrete sequence")
        res = items[slice(l, h, s)]
        return k(st, Tup(res) if isinstance(c, Tup) else new_list(I, st, res))
    if isinstance(c, Sym):
        t = c.t
        if concrete_key(I, st, step) not in (None, 1):
            raise Unsupported("slice step")
        def on_text(s2):
            sv_ = z3.If(is_str(t), get_s(t), get_y(t))
            n = z3.Length(sv_)
            def bound(x, default):
                if z3.is_true(z3.simplify(is_none(x.t))):
                    return default
                i = as_int(x.t)
                i = z3.If(i < 0, z3.If(i + n < 0, 0, i + n), z3.If(i > n, n, i))
                return z3.If(is_none(x.t), default, i)
            l = bound(as_sym(I, s2, lo), z3.IntVal(0)); h = bound(as_sym(I, s2, hi), n)
            sub = z3.SubString(sv_, l, z3.If(h > l, h - l, 0))
            return k(s2, Sym(z3.If(is_str(t), mk_str(sub), mk_byt(sub))))
        def on_seq(s2):
            return unsupported_path(I, s2, f"slice of {c!r}")
        return I.branch(st, z3.Or(is_str(t), is_byt(t)), on_text, on_seq)
    raise Unsupported(f"slice of {c!r}")


def format_pieces(I, st, e, vals):
    """f-string: literal pieces and plain `{x}` of a str value are exact; `{x!r}`, format specs and non-str values
    contribute an opaque piece"""
    parts = []
    vi = 0
    exact = True
    for node in e.values:
        if isinstance(node, ast.Constant):
            parts.append(z3.StringVal(node.value))
            continue
        v = vals[vi] if vi < len(vals) else None
        vi += 1
        if (isinstance(node, ast.FormattedValue) and node.conversion == -1 and node.format_spec is None and isinstance(v, Sym)):
            t = v.t
            opaque = z3.String(I.w.fresh("fpiece"))
            parts.append(z3.If(is_str(t), get_s(t), opaque))
        else:
            parts.append(z3.String(I.w.fresh("fpiece")))
            exact = False
    note(I, "f-string: exact for literal text and {x} of str values; opaque for !r / format specs / non-str values")
    if not parts:
        return Sym(pystr(""))
    return Sym(mk_str(z3.Concat(*parts) if len(parts) > 1 else parts[0]))


# ---------------------------------------------------------------------------- loops
def loop_spec(I, fr, node):
    """Sidecar invariant for this loop (by ordinal within the function under verification)."""
    c = I.cur if (I.cur is not None and fr.q == I.cur_q) else I.reg.contracts.get(fr.q)
    if c is None:
        return None
    fi = I.w.funcs.get(fr.q)
    if fi is None:
        return None
    loops = [n for n in ast.walk(fi.node) if isinstance(n, (ast.For, ast.While))]
    loops.sort(key=lambda n: (n.lineno, n.col_offset))
    for i, n in enumerate(loops, 1):
        if n is node:
            return c.invariants.get(i), i
    return None


def assigned_names(stmts):
    names, fields, calls = set(), set(), []
    for s in stmts:
        for n in ast.walk(s):
            if isinstance(n, ast.Name) and isinstance(n.ctx, (ast.Store, ast.Del)):
                names.add(n.id)
            elif isinstance(n, ast.Attribute) and isinstance(n.ctx, ast.Store):
                fields.add(n.attr)
            elif isinstance(n, ast.Call):
                calls.append(n)
    return names, fields, calls


def exec_for(I, st, s, fr):
    def with_iter(s2, itv):
        items = concrete_items(I, s2, itv)
        if items is not None and not isinstance(itv, (ItemsOf, OpaqueIter)):
            return unroll(I, s2, s, items, fr)
        return USER_FOR(I, s2, s, itv, fr)
    return I.ev(st, s.iter, fr, with_iter)


def unroll(I, st, s, items, fr):
    outs = [Out(st, "normal")]
    done = []
    for it in items:
        nxt = []
        for o in outs:
            for a in I.assign(o.st, s.target, it, fr):
                if a.kind != "normal":
                    done.append(a); continue
                for b in I.exec_block(a.st, s.body, fr):
                    if b.kind in ("normal", "continue"):
                        nxt.append(Out(b.st, "normal"))
                    elif b.kind == "break":
                        done.append(Out(b.st, "normal:broke"))
                    else:
                        done.append(b)
        outs = nxt
    res = []
    for o in outs:
        res += I.exec_block(o.st, s.orelse, fr) if s.orelse else [o]
    for o in done:
        if o.kind == "normal:broke":
            res.append(Out(o.st, "normal"))
        else:
            res.append(o)
    return res


def USER_FOR(I, st, s, itv, fr):
    from . import loops
    return loops.for_invariant(I, st, s, itv, fr)


def exec_while(I, st, s, fr):
    from . import loops
    return loops.while_invariant(I, st, s, fr)


def exec_with(I, st, s, fr):
    from . import loops
    return loops.exec_with(I, st, s, fr)


def _with_lock_pred(I, st, cm):
    return isinstance(cm, Sym) and cm.hint in ("_thread.RLock", "_thread.lock", "threading.RLock")


def _with_lock(I, st, s, cm, fr):
    """`with lock:` - mutual exclusion is an assumed property of the lock (sequential semantics here); the ghost
    `held` set records that the lock is held while the body runs (lock-discipline obligations read it)."""
    note(I, "with <lock>: body executed with the lock recorded as held (RLock contract assumed)")
    held = st.ghost.get("$held")
    st.ghost["$held"] = Sym(mk_int(z3.IntVal(1)))
    outs = I.exec_block(st, s.body, fr)
    for o in outs:
        if held is None:
            o.st.ghost.pop("$held", None)
        else:
            o.st.ghost["$held"] = held
    return outs


def _with_cm_pred(I, st, cm):
    return isinstance(cm, CMV)


def _with_cm(I, st, s, cm, fr):
    """`with self._error_catcher():` - the generator function runs inline; its `yield` executes the with-body."""
    f, args, kwargs = cm.func, cm.args, cm.kwargs
    from .engine import Frame
    nfr = Frame(f.module, f.cls, f.q, closure=f.closure, depth=fr.depth + 1)
    nfr.cm = {"body": s.body, "caller_fr": fr, "caller_env": st.env, "as_name": s.items[0].optional_vars}
    bound, err = I.bind_params(st, f.node, args, kwargs, nfr, None, f.q)
    if err:
        return I.raise_(st, "builtins.TypeError", err)
    env, missing, kwrest = bound
    if missing:
        raise Unsupported("contextmanager with default arguments")
    caller_env = st.env
    st.env = env
    st.trace.append(f"with {f.q.split('.')[-1]}")
    outs = I.exec_block(st, f.node.body, nfr)
    res = []
    for o in outs:
        o.st.env = o.st.cm_caller_env if o.st.cm_caller_env is not None else caller_env
        o.st.cm_caller_env = None
        res.append(o)
    return res


class CMV(Value):
    """a call of a @contextmanager generator function, waiting for its `with`"""
    __slots__ = ("func", "args", "kwargs")

    def __init__(self, func, args, kwargs):
        self.func, self.args, self.kwargs = func, args, kwargs


WITH_HANDLERS = [(_with_lock_pred, _with_lock), (_with_cm_pred, _with_cm)]


def comprehension(I, st, e, fr, k, kind):
    if len(e.generators) != 1:
        raise Unsupported("nested comprehension")
    g = e.generators[0]
    def with_iter(s2, itv):
        items = concrete_items(I, s2, itv)
        if items is None:
            from . import loops
            return loops.symbolic_comprehension(I, s2, e, itv, fr, k, kind)
        saved = dict(s2.env)
        def go(s3, i, acc):
            if i == len(items):
                s3.env = {**s3.env}
                for n in ast.walk(g.target):
                    if isinstance(n, ast.Name):
                        s3.env.pop(n.id, None)
                        if n.id in saved:
                            s3.env[n.id] = saved[n.id]
                if kind == "list":
                    return k(s3, new_list(I, s3, acc))
                if kind == "gen":
                    return k(s3, Tup(acc))          # consumed once by the enclosing call
                if kind == "set":
                    keys = [concrete_key(I, s3, x) for x in acc]
                    if _NOKEY in keys:
                        raise Unsupported("set comprehension with symbolic items")
                    return k(s3, LSet(keys, frozen=False))
                if kind == "dict":
                    d = {}
                    for kk, vv in acc:
                        ck = concrete_key(I, s3, kk)
                        if ck is _NOKEY:
                            raise Unsupported("dict comprehension with symbolic keys")
                        d[ck] = vv
                    return k(s3, new_dict(I, s3, d))
            outs = []
            for a in I.assign(s3, g.target, items[i], fr):
                if a.kind != "normal":
                    outs.append(a); continue
                def body(s4):
                    if kind == "dict":
                        return I.ev(s4, e.key, fr, lambda s5, kk: I.ev(s5, e.value, fr, lambda s6, vv: go(s6, i + 1, acc + [(kk, vv)])))
                    return I.ev(s4, e.elt, fr, lambda s5, v: go(s5, i + 1, acc + [v]))
                def conds(s4, j):
                    if j == len(g.ifs):
                        return body(s4)
                    return I.ev_cond(s4, g.ifs[j], fr, lambda s5: conds(s5, j + 1), lambda s5: go(s5, i + 1, acc))
                outs += conds(a.st, 0)
            return outs
        return go(s2, 0, [])
    return I.ev(st, g.iter, fr, with_iter)


# --------------------------------------------------------------------- special forms
def sf_old(I, st, e, fr, k):
    if st.old is None:
        raise SpecError("old() outside a contract")
    heap, frontier, ghost = st.old[0], st.old[1], st.old[2]
    s0 = st.fork()
    s0.heap = dict(heap); s0.frontier = frontier; s0.ghost = dict(ghost)
    v = I.spec_value(s0, ast.unparse(e.args[0]), {**fr.specenv, **st.env}, old=st.old)
    return k(st, v)


def sf_fresh(I, st, e, fr, k):
    def got(s2, v):
        t = as_sym(I, s2, v).t
        return k(s2, Sym(mk_bool(z3.And(is_ref(t), get_loc(t) >= s2.old[1]))))
    return I.ev(st, e.args[0], fr, got)


def sf_implies(I, st, e, fr, k):
    node = ast.BoolOp(op=ast.Or(), values=[ast.UnaryOp(op=ast.Not(), operand=e.args[0]), e.args[1]])
    ast.copy_location(node, e); ast.fix_missing_locations(node)
    return I.ev(st, node, fr, lambda s2, v: k(s2, Sym(mk_bool(I.truthy(s2, v)))))


def sf_iff(I, st, e, fr, k):
    return I.ev(st, e.args[0], fr, lambda s2, a: I.ev(s2, e.args[1], fr,
                lambda s3, b: k(s3, Sym(mk_bool(I.truthy(s3, a) == I.truthy(s3, b))))))


def sf_isinstance(I, st, e, fr, k):
    def got(s2, vals):
        x, c = vals
        classes = I._exc_classes(c)
        if isinstance(x, Sym):
            return k(s2, Sym(mk_bool(z3.simplify(I.w.isinstance_term(x.t, classes)))))
        kind = {Tup: "builtins.tuple", LList: "builtins.list", LDict: "builtins.dict", LSet: "builtins.frozenset"}.get(type(x))
        if kind is None:
            raise Unsupported(f"isinstance of {x!r}")
        if isinstance(x, LSet) and not x.frozen:
            kind = "builtins.set"
        return k(s2, Sym(mk_bool(z3.BoolVal(any(I.w.is_subclass(kind, cq) for cq in classes)))))
    return I.ev_list(st, e.args, fr, got)


def sf_super(I, st, e, fr, k):
    if e.args:
        raise Unsupported("super(args)")
    recv = st.env.get("self") or st.env.get("cls")
    if recv is None:
        raise Unsupported("super() without self")
    return k(st, SuperV(recv, fr.cls))


def sf_forall(I, st, e, fr, k):
    """forall(lo, hi, lambda i: body)  /  exists(lo, hi, lambda i: body): integer range quantifiers."""
    is_all = e.func.id == "forall"
    lam = e.args[2]
    if not isinstance(lam, ast.Lambda):
        raise SpecError("forall(lo, hi, lambda i: ...)")
    def got(s2, lohi):
        lo, hi = as_int(as_sym(I, s2, lohi[0]).t), as_int(as_sym(I, s2, lohi[1]).t)
        iv = z3.Int(I.w.fresh(lam.args.args[0].arg))
        env = {**fr.specenv, **s2.env, lam.args.args[0].arg: Sym(mk_int(iv))}
        s3 = s2.fork()
        rng = z3.And(lo <= iv, iv < hi)
        s3.pc.append(rng)
        body = I.spec_bool(s3, ast.unparse(lam.body), env, old=s2.old)
        q = z3.ForAll([iv], z3.Implies(rng, body)) if is_all else z3.Exists([iv], z3.And(rng, body))
        return k(s2, Sym(mk_bool(q)))
    return I.ev_list(st, e.args[:2], fr, got)


def sf_hasattr(I, st, e, fr, k):
    def got(s2, vals):
        x, n = vals
        name = concrete_key(I, s2, n)
        if isinstance(x, Sym) and isinstance(name, str):
            duck = getattr(I.cur, "duck_attrs", None) if I.cur is not None else None
            if duck and name in duck and not x.hint:
                return k(s2, Sym(mk_bool(duck_has(name, x.t))))
            fn = HASATTR.get(name)
            if fn is not None:
                return k(s2, Sym(mk_bool(fn(I, s2, x))))
            if x.hint and I.w.find_attr(x.hint, name):
                return k(s2, Sym(TRUE))
        raise Unsupported(f"hasattr({x!r}, {name!r})")
    return I.ev_list(st, e.args, fr, got)


HASATTR = {"errno": lambda I, st, x: I.w.isinstance_term(x.t, ["builtins.OSError"])}

fmt_conv = {}


def _bytes_percent(I, st, fmt, items):
    """b"...%x...%b..." % (a, b): literal text exact; %b of a bytes operand is the operand; every other conversion is an
    uninterpreted function of (conversion, operand) - deterministic, content unknown.  Assumed total (operands of the right kind)."""
    import re as _re
    parts = _re.split(rb"(%[a-zA-Z%])", fmt)
    out = []; i = 0
    for p_ in parts:
        if len(p_) == 2 and p_[:1] == b"%":
            if p_ == b"%%":
                out.append(z3.StringVal("%")); continue
            if i >= len(items):
                return None
            t = as_sym(I, st, items[i]).t; i += 1
            cv = p_[1:].decode()
            f_ = fmt_conv.setdefault(cv, z3.Function("bfmt_" + cv, V, z3.StringSort()))
            out.append(z3.If(is_byt(t), get_y(t), f_(t)) if cv in ("b", "s") else f_(t))
        elif p_:
            out.append(z3.StringVal(p_.decode("latin-1")))
    if i != len(items):
        return None
    note(I, "bytes %-formatting with a literal format: literal text and %b of bytes exact, other conversions uninterpreted functions of the operand")
    return Sym(mk_byt(z3.Concat(*out) if len(out) > 1 else out[0]))


def sf_has_lower_key(I, st, e, fr, k):
    """has_lower_key(m, 'name'): mapping m (or None) has a str key whose lower-cased form is the given string (spec only)"""
    def got(s2, vals):
        m, nm = vals
        nt = as_sym(I, s2, nm).t
        if isinstance(m, LDict):
            keys = list(s2.lheap[m.id].keys())
            return k(s2, Sym(mk_bool(z3.Or([nt == pystr(x.lower()) for x in keys if isinstance(x, str)] or [z3.BoolVal(False)]))))
        t = as_sym(I, s2, m).t
        kq = z3.Const(I.w.fresh("kq"), V)
        has = s2.read(HAS, get_loc(t))
        ex = z3.Exists([kq], z3.And(z3.Select(has, kq), is_str(kq), mk_str(str_lower(get_s(kq))) == nt))
        return k(s2, Sym(mk_bool(z3.And(is_ref(t), ex))))
    return I.ev_list(st, e.args, fr, got)


def sf_uf(I, st, e, fr, k):
    """uf('name', args...): an uninterpreted V-valued function of its arguments (spec only)."""
    name = e.args[0].value
    def got(s2, vals):
        ts = [as_sym(I, s2, v).t for v in vals]
        f = z3.Function("uf_" + name, *([V] * len(ts)), V)
        return k(s2, Sym(f(*ts)))
    return I.ev_list(st, e.args[1:], fr, got)


def sf_K(I, st, e, fr, k):
    """K('qualified.ClassName'): a class by its qualified name (spec only; avoids short-name ambiguity)"""
    q = e.args[0].value
    mname, _, attr = q.rpartition(".")
    mod = I.w.facts["modules"].get(mname)
    sg = getattr(I.cur, "symbolic_globals", None) if I.cur is not None else None
    if sg and q in sg:
        return k(st, Sym(mk_bool(z3.Bool(f"glob_{q}"))))
    if mod is not None and attr in mod["globals"] and q not in I.w.class_ids:
        return k(st, I.from_fact(mod["globals"][attr]))        # a module-level constant (e.g. a sentinel) by qualified name
    return k(st, ClassV(I.w.resolve_class(q)))


def sf_matches(I, st, e, fr, k):
    """matches(<literal pattern>, s): s is in the fullmatch language of the pattern (spec only; str or bytes pattern)"""
    from . import regex
    pat = e.args[0].value
    lang = regex.language(regex.parse_literal(pat), "fullmatch")
    def got(s2, v):
        t = as_sym(I, s2, v).t
        sv_ = get_y(t) if isinstance(pat, bytes) else get_s(t)
        ok = is_byt(t) if isinstance(pat, bytes) else is_str(t)
        return k(s2, Sym(mk_bool(z3.And(ok, z3.InRe(sv_, lang)))))
    return I.ev(st, e.args[1], fr, got)


SPECIAL_FORMS = {"has_lower_key": sf_has_lower_key, "matches": sf_matches, "K": sf_K, "uf": sf_uf, "old": sf_old, "fresh": sf_fresh, "implies": sf_implies, "iff": sf_iff, "isinstance": sf_isinstance,
                 "super": sf_super, "forall": sf_forall, "exists": sf_forall, "hasattr": sf_hasattr}
SPECIAL_ALWAYS = {"isinstance", "super", "hasattr"}


# -------------------------------------------------------------------------- builtins
def numeric_pick(I, st, args, fr, k, pick_second_if):
    a, b = args
    ta, tb = a.t, b.t
    both = z3.And(is_numeric(ta), is_numeric(tb))
    def ok(s2):
        return k(s2, Sym(z3.simplify(z3.If(pick_second_if(as_real(ta), as_real(tb)), tb, ta))))
    def other(s2):
        note(I, "min/max on non-numbers raises TypeError")
        return type_error(I, s2, "min/max of non-numbers")
    return I.branch(st, both, ok, other)


def b_minmax(name):
    def f(I, st, args, kwargs, fr, k):
        if len(args) == 1:
            items = concrete_items(I, st, args[0])
            if items is None:
                raise Unsupported(f"{name} over symbolic iterable")
            if not items:
                return I.raise_(st, "builtins.ValueError", f"{name}() arg is an empty sequence")
            args = items
        args = [as_sym(I, st, a) for a in args]
        def fold(s2, acc, rest):
            if not rest:
                return k(s2, acc)
            return numeric_pick(I, s2, [acc, rest[0]], fr, lambda s3, v: fold(s3, v, rest[1:]),
                                (lambda x, y: y < x) if name == "min" else (lambda x, y: y > x))
        return fold(st, args[0], args[1:])
    return f


def b_len(I, st, args, kwargs, fr, k):
    x = args[0]
    items = concrete_items(I, st, x)
    if items is not None:
        return k(st, Sym(pyint(len(items))))
    if isinstance(x, Sym):
        t = x.t
        if x.hint in USER_LEN:
            return k(st, Sym(mk_int(USER_LEN[x.hint](I, st, get_loc(t)))))
        if fr.spec and x.hint and x.hint not in ("builtins.str", "builtins.bytes"):
            return k(st, Sym(mk_int(st.read(LEN, get_loc(t)))))       # a container of known class: no string terms in the formula
        if fr.spec:
            # specs: total - the length of a string / bytes / container, an unspecified number otherwise
            return k(st, Sym(mk_int(z3.If(is_str(t), z3.Length(get_s(t)), z3.If(is_byt(t), z3.Length(get_y(t)), st.read(LEN, get_loc(t)))))))
        def kstr(s2): return k(s2, Sym(mk_int(z3.Length(get_s(t)))))
        def kbyt(s2): return k(s2, Sym(mk_int(z3.Length(get_y(t)))))
        def kref(s2):
            sized = I.w.isinstance_term(t, I.SIZED)
            def ok(s3):
                n = s3.read(LEN, get_loc(t))
                s3.fact(n >= 0)
                return k(s3, Sym(mk_int(n)))
            return I.branch(s2, sized, ok, lambda s3: type_error(I, s3, "len() of unsized object"))
        return I.branch(st, is_str(t), kstr, lambda s2: I.branch(s2, is_byt(t), kbyt, kref))
    raise Unsupported(f"len({x!r})")


def b_float(I, st, args, kwargs, fr, k):
    x = as_sym(I, st, args[0]); t = x.t
    def knum(s2): return k(s2, Sym(mk_flt(as_real(t))))
    def other(s2):
        def kstr(s3):
            s = z3.If(is_str(t), get_s(t), get_y(t))
            return I.branch(s3, str_is_float(s), lambda s4: k(s4, Sym(mk_flt(str_float(s)))),
                            lambda s4: I.raise_(s4, "builtins.ValueError", "could not convert string to float"))
        note(I, "float(x) raises TypeError for None and for objects (opaque objects define no __float__)")
        return I.branch(s2, z3.Or(is_str(t), is_byt(t)), kstr, lambda s3: type_error(I, s3, "float() argument"))
    return I.branch(st, is_numeric(t), knum, other)


def b_int(I, st, args, kwargs, fr, k):
    x = as_sym(I, st, args[0]); t = x.t
    base = as_int(as_sym(I, st, args[1]).t) if len(args) > 1 else z3.IntVal(10)
    def kint(s2): return k(s2, Sym(mk_int(as_int(t))))
    def other(s2):
        def kflt(s3): return k(s3, Sym(mk_int(z3.If(get_r(t) >= 0, z3.ToInt(get_r(t)), -z3.ToInt(-get_r(t))))))
        def rest(s3):
            def kstr(s4):
                s = z3.If(is_str(t), get_s(t), get_y(t))
                from . import regex
                digits = regex.language(regex.parse_literal(r"^\s*[0-9]+\s*\Z"), "match")
                s4.fact(z3.Implies(z3.And(base == 10, z3.InRe(s, digits)), z3.And(str_is_int(s, base), str_int(s, base) >= 0)))
                note(I, "int(s): strings of the form \\s*[0-9]+\\s* parse to a non-negative integer; other strings: uninterpreted")
                return I.branch(s4, str_is_int(s, base), lambda s5: k(s5, Sym(mk_int(str_int(s, base)))),
                                lambda s5: I.raise_(s5, "builtins.ValueError", "invalid literal for int()"))
            return I.branch(s3, z3.Or(is_str(t), is_byt(t)), kstr, lambda s4: type_error(I, s4, "int() argument"))
        return I.branch(s2, is_flt(t), kflt, rest)
    return I.branch(st, is_intlike(t), kint, other)


def b_bool(I, st, args, kwargs, fr, k):
    if not args:
        return k(st, Sym(FALSE))
    return k(st, Sym(mk_bool(I.truthy(st, args[0]))))


def b_list(I, st, args, kwargs, fr, k):
    if not args:
        return k(st, new_list(I, st, []))
    items = concrete_items(I, st, args[0])
    if items is None:
        if isinstance(args[0], OpaqueIter):
            loc = I.alloc(st, "builtins.list")
            n = st.read(LEN, loc)
            st.fact(n >= 0, n <= args[0].maxlen)
            return k(st, Sym(mk_ref(loc), hint="builtins.list"))
        if isinstance(args[0], ValuesOf) and isinstance(args[0].src, Sym):
            # list(d.values()): a fresh list with one (unconstrained) element per entry of the mapping
            note(I, "list(mapping.values()): fresh list of len(mapping) elements (the elements themselves are not related to the mapping)")
            n0 = st.read(LEN, get_loc(args[0].src.t))
            loc = I.alloc(st, "builtins.list")
            st.write(LEN, loc, n0)
            return k(st, Sym(mk_ref(loc), hint="builtins.list"))
        raise Unsupported("list() of symbolic iterable")
    return k(st, new_list(I, st, items))


def b_tuple(I, st, args, kwargs, fr, k):
    if not args:
        return k(st, Tup([]))
    if isinstance(args[0], Sym) and z3.is_true(z3.simplify(I.w.isinstance_term(args[0].t, ["builtins.tuple"]))):
        return k(st, args[0])
    items = concrete_items(I, st, args[0])
    if items is None:
        if isinstance(args[0], Sym):
            note(I, "tuple(x) of an opaque iterable is a function of its content (uninterpreted)")
            return k(st, Sym(uf_v("tuple_of", args[0].t)))
        raise Unsupported("tuple() of symbolic iterable")
    return k(st, Tup(items))


def b_dict(I, st, args, kwargs, fr, k):
    d = {}
    if args:
        src = concrete_dict(I, st, args[0])
        if src is None:
            items = concrete_items(I, st, args[0])
            if items is None:
                raise Unsupported("dict() of symbolic mapping")
            for it in items:
                kv = concrete_items(I, st, it)
                ck = concrete_key(I, st, kv[0])
                if ck is _NOKEY:
                    raise Unsupported("dict() with symbolic key")
                d[ck] = kv[1]
        else:
            d.update(src)
    d.update(kwargs)
    return k(st, new_dict(I, st, d))


def b_frozenset(frozen):
    def f(I, st, args, kwargs, fr, k):
        if not args:
            return k(st, LSet([], frozen))
        if isinstance(args[0], LSet):
            return k(st, LSet(args[0].items, frozen))
        if isinstance(args[0], ItemsOf):
            note(I, "frozenset(m.items()) is a function of the mapping's content (uninterpreted; injective on content by definition)")
            return k(st, Sym(uf_v("frozenset_items", args[0].src.t)))
        items = concrete_items(I, st, args[0])
        if items is None:
            return USER_SET_FROM(I, st, args[0], frozen, fr, k)
        keys = [concrete_key(I, st, x) for x in items]
        if _NOKEY in keys:
            return USER_SET_FROM(I, st, args[0], frozen, fr, k)
        return k(st, LSet(keys, frozen))
    return f


def USER_SET_FROM(I, st, v, frozen, fr, k):
    from .loops import GenOver
    if isinstance(v, GenOver) and isinstance(v.src, Sym):
        e_ = v.node
        g_ = e_.generators[0]
        is_lower_map = (isinstance(e_.elt, ast.Call) and isinstance(e_.elt.func, ast.Attribute) and e_.elt.func.attr == "lower"
                        and isinstance(e_.elt.func.value, ast.Name) and isinstance(g_.target, ast.Name)
                        and e_.elt.func.value.id == g_.target.id and not g_.ifs and not e_.elt.args)
        if is_lower_map:
            # {x.lower() for x in src}: a function of the source collection; lower-casing an already lower-case
            # collection gives a set with the same content (stated as facts about the uninterpreted symbols)
            note(I, "frozenset(x.lower() for x in c): a fresh set remembered (ghost function lowered_src) to be the lower-cased image of c")
            loc = I.alloc(st, "builtins.frozenset" if frozen else "builtins.set")
            res = mk_ref(loc)
            st.fact(uf_v("lowered_src", res) == v.src.t)
            n = st.read(LEN, loc)
            st.fact(n >= 0)
            return k(st, Sym(res, hint="builtins.frozenset" if frozen else "builtins.set"))
    if isinstance(v, GenOver) and isinstance(v.src, Sym) and isinstance(v.node.generators[0].target, ast.Name) and not v.node.generators[0].ifs \
            and getattr(I.cur, "str_key_mappings", None) and isinstance(v.node.generators[0].iter, ast.Name) \
            and v.node.generators[0].iter.id in I.cur.str_key_mappings:
        img = _image_set(I, st, v, frozen, fr)
        if img is not None:
            return k(st, img)
    if isinstance(v, GenOver) or isinstance(v, Sym):
        # over-approximation: a fresh set object with unconstrained content (sound; listed)
        note(I, "set()/frozenset() built from a collection of unknown size: content unconstrained (over-approximation)")
        loc = I.alloc(st, "builtins.frozenset" if frozen else "builtins.set")
        n = st.read(LEN, loc)
        st.fact(n >= 0)
        return k(st, Sym(mk_ref(loc), hint="builtins.frozenset" if frozen else "builtins.set"))
    raise Unsupported("set()/frozenset() of symbolic items")


def _image_set(I, st, v, frozen, fr):
    """frozenset(f(k) for k in m) over a mapping m with str keys (declared): the image of m's key set under f.
    f is obtained by evaluating the element expression once on an arbitrary key (it must give one value, no effects);
    forward: every key's image is a member (quantified, triggered by membership of the key); backward: each later
    membership test that succeeds has a witness key (skolemised in `contains`).  The comprehension completed, so f raised on no key."""
    e_ = v.node; g_ = e_.generators[0]
    src_has = st.read(HAS, get_loc(v.src.t))
    k0 = z3.Const(I.w.fresh("key"), V)
    s_ = st.fork()
    s_.env = dict(st.env); s_.env[g_.target.id] = Sym(k0)
    s_.pc += [z3.Select(src_has, k0), is_str(k0)]
    n_pc = len(s_.pc); ver = s_.version
    try:
        outs = I.ev(s_, e_.elt, fr, _val(None))
    except Unsupported:
        return None
    normal = [o for o in outs if o.kind == "val"]
    if len(normal) != 1 or normal[0].st.version != ver:
        return None
    o = normal[0]
    extra = [c_ for c_ in o.st.pc[n_pc:] if id(c_) not in o.st.facts]
    tv = as_sym(I, o.st, o.val).t
    facts_ = [c_ for c_ in o.st.pc[n_pc:] if id(c_) in o.st.facts]
    note(I, "frozenset(f(k) for k in mapping-with-str-keys): the image of the key set under f (forward by a quantified fact, backward by a witness per successful membership test); f raised on no key because the comprehension completed")
    loc = I.alloc(st, "builtins.frozenset" if frozen else "builtins.set")
    arr = z3.Const(I.w.fresh("img_has"), z3.ArraySort(V, z3.BoolSort()))
    st.write(HAS, loc, arr)
    n = st.read(LEN, loc)
    st.fact(n >= 0)
    kq = z3.Const(I.w.fresh("kq"), V)
    body = z3.Implies(z3.And(z3.Select(src_has, kq), is_str(kq)), z3.And([z3.substitute(c_, (k0, kq)) for c_ in facts_ + extra] + [z3.Select(arr, z3.substitute(tv, (k0, kq)))]))
    qf = z3.ForAll([kq], body, patterns=[z3.Select(src_has, kq)])
    from . import engine as _E
    _E._HARD[qf.get_id()] = True; _E._ALIVE.append(qf)        # kept out of feasibility queries (fewer hypotheses there: sound), present in every obligation
    st.fact(qf)
    I.images[str(loc)] = (src_has, tv, k0, facts_ + extra)
    return Sym(mk_ref(loc), hint="builtins.frozenset" if frozen else "builtins.set")


def image_witness(I, st, t, item_t, member):
    """member (= item in S) for an image set S: a witness key exists"""
    ent = I.images.get(str(z3.simplify(get_loc(t))))
    if ent is None:
        return
    src_has, tv, k0, side = ent
    w = z3.Const(I.w.fresh("wit"), V)
    sub = lambda c_: z3.substitute(c_, (k0, w))
    st.fact(z3.Implies(member, z3.And([z3.Select(src_has, w), is_str(w), sub(tv) == item_t] + [sub(c_) for c_ in side])))


def b_type(I, st, args, kwargs, fr, k):
    x = args[0]
    if isinstance(x, Sym) and x.hint:
        note(I, "type(x) is the declared class (subclasses are assumed to satisfy the base contract)")
        return k(st, ClassV(x.hint))
    if isinstance(x, Sym):
        note(I, "type(x) of a value of unknown class: an opaque class object (only its formatting is used)")
        loc = z3.Int(I.w.fresh("a"))
        st.fact(loc >= 0, loc < st.frontier)
        return k(st, Sym(mk_ref(loc)))
    raise Unsupported(f"type({x!r})")


def b_str(I, st, args, kwargs, fr, k):
    if not args:
        return k(st, Sym(pystr("")))
    x = as_sym(I, st, args[0])
    t = x.t
    if z3.is_true(z3.simplify(is_str(t))):
        return k(st, x)
    note(I, "str(x) of a non-string is an uninterpreted function of x (deterministic; str(0) == '0')")
    f_ = z3.Function("str_of", V, z3.StringSort())
    st.fact(f_(pyint(0)) == z3.StringVal("0"))
    ck = concrete_key(I, st, x)
    if isinstance(ck, int) and not isinstance(ck, bool):
        return k(st, Sym(pystr(str(ck))))
    return k(st, Sym(z3.If(is_str(t), t, mk_str(f_(z3.If(is_bool(t), t, z3.If(is_int(t), mk_int(get_i(t)), t)))))))


def b_reversed(I, st, args, kwargs, fr, k):
    items = concrete_items(I, st, args[0])
    if items is not None:
        return k(st, Tup(list(reversed(items))))
    return k(st, BoundV(args[0], None, "$reversed"))


def b_monotonic(I, st, args, kwargs, fr, k):
    r = z3.Real(I.w.fresh("now"))
    clock = st.ghost.get("clock")
    if clock is not None:
        st.fact(r >= get_r(clock.t))
    st.ghost["clock"] = Sym(mk_flt(r))
    st.version += 1
    note(I, "time.monotonic() is non-decreasing (ghost clock)")
    return k(st, Sym(mk_flt(r)))


def b_log(I, st, args, kwargs, fr, k):
    # effect dropped; arguments were already evaluated by the caller (so their exceptions are kept)
    return k(st, Sym(NONE))


def b_getdefaulttimeout(I, st, args, kwargs, fr, k):
    r = I.fresh_v("sockdefault")
    st.fact(z3.Or(is_none(r.t), z3.And(is_flt(r.t), get_r(r.t) >= 0)))
    note(I, "socket.getdefaulttimeout() returns None or a float >= 0")
    return k(st, r)


def b_cast(I, st, args, kwargs, fr, k):
    return k(st, args[1])


def b_namedtuple_new(I, st, args, kwargs, fr, k):
    cls = args[0]
    if not isinstance(cls, ClassV):
        raise Unsupported("super().__new__ with a symbolic class")
    kw = dict(kwargs); kw["$raw"] = True
    return construct(I, st, cls.q, list(args[1:]), kw, fr, k)


def b_map(I, st, args, kwargs, fr, k):
    f = args[0]
    items = concrete_items(I, st, args[1])
    if items is None or len(args) != 2:
        raise Unsupported("map over a symbolic iterable")
    def go(s2, i, acc):
        if i == len(items):
            return k(s2, Tup(acc))
        return I.call(s2, f, [items[i]], {}, fr, lambda s3, r: go(s3, i + 1, acc + [r]))
    return go(st, 0, [])


def b_repr(I, st, args, kwargs, fr, k):
    note(I, "repr(x) is an opaque string")
    return k(st, Sym(mk_str(z3.String(I.w.fresh("repr")))))


def b_sleep(I, st, args, kwargs, fr, k):
    st.events.append(("Sleep", {"s": args[0]}))
    st.version += 1
    return k(st, Sym(NONE))


def b_random(I, st, args, kwargs, fr, k):
    r = z3.Real(I.w.fresh("rnd"))
    st.fact(r >= 0, r < 1)
    note(I, "random.random() in [0,1)")
    return k(st, Sym(mk_flt(r)))


def b_any_all(is_any):
    def f(I, st, args, kwargs, fr, k):
        items = concrete_items(I, st, args[0])
        if items is None:
            raise Unsupported("any/all over symbolic iterable")
        ts = [I.truthy(st, x) for x in items]
        return k(st, Sym(mk_bool(z3.Or(ts) if is_any else z3.And(ts))))
    return f


def b_getattr(I, st, args, kwargs, fr, k):
    name = concrete_key(I, st, args[1])
    if not isinstance(name, str):
        raise Unsupported("getattr with symbolic name")
    if len(args) == 2:
        return I.getattr_value(st, args[0], name, fr, k)
    # getattr(x, name, default): default iff AttributeError
    outs = I.getattr_value(st, args[0], name, fr, _val(None))
    res = []
    for o in outs:
        if o.kind == "val":
            res += k(o.st, o.val)
        elif o.kind == "raise" and z3.is_true(z3.simplify(I.w.isinstance_term(o.val.t, ["builtins.AttributeError"]))):
            res += k(o.st, args[2])
        elif o.kind == "raise":
            res += I.branch(o.st, I.w.isinstance_term(o.val.t, ["builtins.AttributeError"]),
                            lambda s2: k(s2, args[2]), lambda s2, o=o: [Out(s2, "raise", o.val)])
        else:
            res.append(o)
    return res


def b_with_traceback(I, st, args, kwargs, fr, k):
    exc, tb = args
    st.write("__traceback__", get_loc(exc.t), I.term(st, tb))
    return k(st, exc)


def b_re_fn(mode):
    def f(I, st, args, kwargs, fr, k):
        from . import regex
        pat = concrete_key(I, st, args[0])
        if isinstance(args[0], RegexV):
            rx = args[0]
        elif isinstance(pat, (str, bytes)):
            flags = concrete_key(I, st, args[2]) if len(args) > 2 else 0
            rx = RegexV(regex.parse_literal(pat, flags or 0))
            note(I, "literal regex parsed by the engine interpreter's sre parser")
        else:
            raise Unsupported("re.%s with a non-literal pattern" % mode)
        if mode == "compile":
            return k(st, rx)
        return regex.call(I, st, rx, mode, [args[1]], {}, fr, k)
    return f


class ValuesOf(Value):
    """`m.values()` of a heap mapping (only consumable by list())."""
    __slots__ = ("src",)

    def __init__(self, src):
        self.src = src


class ItemsOf(Value):
    """`m.items()` of a mapping we know nothing about."""
    __slots__ = ("src",)

    def __init__(self, src):
        self.src = src


def is_true_v(t):
    """truthiness of a V term produced by an uninterpreted spec function (bool(uf(...)) in specs)"""
    return z3.If(is_bool(t), get_b(t), z3.Not(is_none(t)))


def uf_v(name, *ts):
    return z3.Function("uf_" + name, *([V] * len(ts)), V)(*ts)


class OpaqueIter(Value):
    """An iterator producing at most `maxlen` items we know nothing about (over-approximation)."""
    __slots__ = ("maxlen",)

    def __init__(self, maxlen):
        self.maxlen = maxlen


def seq_len_term(I, st, v):
    if isinstance(v, BoundV) and v.name == "$reversed":
        return seq_len_term(I, st, v.recv)
    if isinstance(v, OpaqueIter):
        return v.maxlen
    items = concrete_items(I, st, v)
    if items is not None:
        return z3.IntVal(len(items))
    if isinstance(v, Sym):
        return st.read(LEN, get_loc(v.t))
    raise Unsupported(f"length of {v!r}")


def b_takewhile(I, st, args, kwargs, fr, k):
    pred, it = args
    items = concrete_items(I, st, it)
    if items is not None:
        def go(s2, i, acc):
            if i == len(items):
                return k(s2, Tup(acc))
            return I.call(s2, pred, [items[i]], {}, fr, lambda s3, r: I.branch(s3, I.truthy(s3, r),
                          lambda s4: go(s4, i + 1, acc + [items[i]]), lambda s4: k(s4, Tup(acc))))
        return go(st, 0, [])
    note(I, "takewhile over a sequence of unknown length: yields an unknown number (<= len) of items; the predicate is assumed not to raise")
    return k(st, OpaqueIter(seq_len_term(I, st, it)))


BUILTINS = {
    "re.match": b_re_fn("match"), "re.search": b_re_fn("search"), "re.fullmatch": b_re_fn("fullmatch"),
    "re.compile": b_re_fn("compile"), "itertools.takewhile": b_takewhile,
    "builtins.BaseException.with_traceback": b_with_traceback,
    "min": b_minmax("min"), "max": b_minmax("max"), "len": b_len, "reversed": b_reversed,
    "time.monotonic": b_monotonic, "time.sleep": b_sleep, "random.random": b_random,
    "socket.getdefaulttimeout": b_getdefaulttimeout, "_socket.getdefaulttimeout": b_getdefaulttimeout,
    "$namedtuple_new": b_namedtuple_new, "map": b_map, "repr": b_repr,
    "typing.cast": b_cast, "any": b_any_all(True), "all": b_any_all(False), "getattr": b_getattr,
}
for _n in ("debug", "info", "warning", "error", "exception", "log"):
    BUILTINS[f"logging.Logger.{_n}"] = b_log
BUILTINS["sys.audit"] = b_log

def _late_regex():
    from . import regex
    BUILTINS.update({"re.Match.groups": regex.b_match_groups, "re.Match.group": regex.b_match_group, "re.Match.span": regex.b_match_span})


def _opaque_protocol(what, cls, exc="builtins.TypeError"):
    """memoryview(x) / iter(x) of a caller-supplied object: whether the object implements the protocol is unknown, so the
    call either raises TypeError or returns a fresh object (buffer view / iterator); nothing else is touched."""
    def f(I, st, args, kwargs, fr, k):
        x = as_sym(I, st, args[0])
        note(I, f"{what}(x) on a duck-typed object: raises TypeError or returns a fresh {cls.split('.')[-1]} (unknown protocol support); bytes-like arguments always succeed")
        outs = []
        bytes_like = z3.Or(is_byt(x.t), I.w.isinstance_term(x.t, ["builtins.bytearray", "builtins.memoryview", "array.array"])) if what == "memoryview" else z3.BoolVal(False)
        s2 = st.fork()
        if I.feasible(s2, z3.Not(bytes_like)):
            s2.pc.append(z3.Not(bytes_like))
            outs += I.raise_(s2, exc, what)
        loc = I.alloc(st, cls)
        if what == "memoryview":
            n = z3.Int(I.w.fresh("nbytes"))
            st.fact(n >= 0, z3.Implies(is_byt(x.t), n == z3.Length(get_y(x.t))))
            st.write("nbytes", loc, mk_int(n))
        return outs + k(st, Sym(mk_ref(loc), cls))
    return f


def b_sorted(I, st, args, kwargs, fr, k):
    items = concrete_items(I, st, args[0])
    if items is not None and not kwargs:
        keys = [concrete_key(I, st, x) for x in items]
        if _NOKEY not in keys and len({type(x) for x in keys}) <= 1:
            return k(st, new_list(I, st, [I.const_val(x) for x in sorted(keys)]))
    raise Unsupported("sorted() of symbolic items")


def b_str_title(I, st, args, kwargs, fr, k):
    ck = concrete_key(I, st, args[0])
    if isinstance(ck, str):
        return k(st, Sym(pystr(ck.title())))
    note(I, "str.title: opaque string")
    return k(st, Sym(mk_str(z3.String(I.w.fresh("title")))))


BUILTINS["builtins.str.title"] = b_str_title
BUILTINS["sorted"] = b_sorted
BUILTINS["iter"] = _opaque_protocol("iter", "builtins.object")
CONSTRUCTORS = {
    "builtins.memoryview": _opaque_protocol("memoryview", "builtins.memoryview"),
    "builtins.float": b_float, "builtins.int": b_int, "builtins.bool": b_bool, "builtins.list": b_list,
    "builtins.tuple": b_tuple, "builtins.dict": b_dict, "builtins.frozenset": b_frozenset(True),
    "builtins.set": b_frozenset(False), "builtins.type": b_type, "builtins.str": b_str,
    "itertools.takewhile": b_takewhile,
}


def call_builtin(I, st, name, args, kwargs, fr, k):
    if "re.Match.groups" not in BUILTINS:
        _late_regex()
    f = BUILTINS.get(name)
    if f is None:
        raise Unsupported(f"no model or contract for builtin {name}")
    note(I, "model:" + name)
    return f(I, st, args, kwargs, fr, k)


def construct(I, st, q, args, kwargs, fr, k):
    f = CONSTRUCTORS.get(q)
    if f is not None:
        return f(I, st, args, kwargs, fr, k)
    c = I.reg.contracts.get(q)      # constructor contract (on the class name)
    if c is not None and not fr.spec and (I.cur is None or q not in I.cur.inline_calls):
        init = I.w.find_attr(q, "__init__")
        fi = I.w.funcs.get(f"{init[0]}.__init__") if init else None
        fv = FuncV(fi.q, _strip_self(fi.node), fi.module, fi.cls) if fi else None
        c.result_hint = q
        return I.apply_contract(st, c, fv, args, kwargs, fr, k)
    ent = I.w.facts["classes"].get(q)
    if ent is None:
        raise Unsupported(f"constructor of unknown class {q}")
    own_new = I.w.funcs.get(f"{q}.__new__")
    if own_new is not None and not kwargs.get("$raw"):
        fv = FuncV(own_new.q, own_new.node, own_new.module, own_new.cls, kind="static")
        return I.call(st, fv, [ClassV(q)] + list(args), kwargs, fr, k)
    kwargs = {k_: v_ for k_, v_ in kwargs.items() if k_ != "$raw"}
    if ent.get("namedtuple_fields"):
        fields = ent["namedtuple_fields"]
        vals = dict(zip(fields, args)); vals.update(kwargs)
        extra = [k_ for k_ in kwargs if k_ not in fields]
        if extra or len(args) > len(fields):
            return type_error(I, st, f"namedtuple got unexpected field(s) {extra}")
        loc = I.alloc(st, q)
        for fname in fields:
            if fname not in vals:
                d = ent["namedtuple_defaults"].get(fname)
                if d is None:
                    return type_error(I, st, f"missing namedtuple field {fname}")
                vals[fname] = I.from_fact(d)
            st.write(fname, loc, I.term(st, vals[fname]))
        st.write(LEN, loc, z3.IntVal(len(fields)))
        arr = z3.K(z3.IntSort(), NONE)
        for i, fname in enumerate(fields):
            arr = z3.Store(arr, i, I.term(st, vals[fname]))
        st.write(ELS, loc, arr)
        return k(st, Sym(mk_ref(loc), hint=q))
    r = I.w.find_attr(q, "__init__")
    loc = I.alloc(st, q)
    obj = Sym(mk_ref(loc), hint=q)
    if r is not None:
        owner, e = r
        fi = I.w.funcs.get(f"{owner}.__init__")
        if fi is not None:
            fv = FuncV(fi.q, fi.node, fi.module, fi.cls, kind="method")
            return I.call(st, fv, [obj] + list(args), kwargs, fr, lambda s2, _v: k(s2, obj))
        if ent.get("is_exc") or owner in ("builtins.object", "builtins.BaseException", "builtins.Exception", "builtins.OSError"):
            return exc_init(I, st, obj, args, kwargs, k)
    raise Unsupported(f"constructor {q}: __init__ has no source, model or contract")


def exc_init(I, st, obj, args, kwargs, k):
    if args:
        st.write("$arg0", get_loc(obj.t), I.term(st, args[0]))
    return k(st, obj)


def _strip_self(fnode):
    import copy
    n = copy.copy(fnode)
    n.args = copy.copy(fnode.args)
    if n.args.posonlyargs:
        n.args.posonlyargs = n.args.posonlyargs[1:]
    else:
        n.args.args = n.args.args[1:]
    return n


# ---------------------------------------------------------------------------- methods
def call_method(I, st, recv, name, func, args, kwargs, fr, k):
    """Methods of built-in containers / primitives."""
    if isinstance(func, BuiltinV):
        c = I.reg.contracts.get(func.name)
        if c is not None:
            return I.apply_contract(st, c, None, [recv] + list(args), kwargs, fr, k)
        if "re.Match.groups" not in BUILTINS:
            _late_regex()
        f = BUILTINS.get(func.name)
        if f is not None:
            return f(I, st, [recv] + list(args), kwargs, fr, k)
        # object.__init__ / Exception.__init__ reached through super()
        if func.name.endswith(".__init__") and func.name.split(".")[0] == "builtins":
            return exc_init(I, st, recv, args, kwargs, k) if isinstance(recv, Sym) else k(st, Sym(NONE))
        if name not in PRIM_METHODS:
            raise Unsupported(f"method {func.name} has no source, model or contract")
    if isinstance(recv, LDict):
        d = st.lheap[recv.id]
        if name == "update":
            for a in args:
                src = concrete_dict(I, st, a)
                if src is None:
                    raise Unsupported("dict.update(symbolic)")
                d.update(src)
            d.update(kwargs); st.version += 1
            return k(st, Sym(NONE))
        if name == "get":
            ck = concrete_key(I, st, args[0])
            if ck is _NOKEY:
                raise Unsupported("dict.get(symbolic key) on local dict")
            return k(st, d.get(ck, args[1] if len(args) > 1 else Sym(NONE)))
        if name == "pop":
            ck = concrete_key(I, st, args[0])
            if ck is _NOKEY:
                raise Unsupported("dict.pop(symbolic key) on local dict")
            if ck in d:
                v = d.pop(ck); st.version += 1
                return k(st, v)
            if len(args) > 1:
                return k(st, args[1])
            return I.raise_(st, "builtins.KeyError")
        if name == "setdefault":
            ck = concrete_key(I, st, args[0])
            if ck is _NOKEY:
                raise Unsupported("dict.setdefault(symbolic key)")
            if ck not in d:
                d[ck] = args[1] if len(args) > 1 else Sym(NONE); st.version += 1
            return k(st, d[ck])
        if name == "copy":
            return k(st, new_dict(I, st, d))
        if name == "items":
            return k(st, Tup([Tup([I.const_val(a), b]) for a, b in d.items()]))
        if name == "keys":
            return k(st, Tup([I.const_val(a) for a in d]))
        if name == "values":
            return k(st, Tup(list(d.values())))
    if isinstance(recv, LList):
        l = st.lheap[recv.id]
        if name == "append":
            l.append(args[0]); st.version += 1
            return k(st, Sym(NONE))
        if name == "extend":
            items = concrete_items(I, st, args[0])
            if items is None:
                raise Unsupported("list.extend(symbolic)")
            l.extend(items); st.version += 1
            return k(st, Sym(NONE))
        if name == "pop":
            if not l:
                return I.raise_(st, "builtins.IndexError")
            idx = concrete_key(I, st, args[0]) if args else -1
            v = l.pop(idx); st.version += 1
            return k(st, v)
        if name == "insert":
            l.insert(concrete_key(I, st, args[0]), args[1]); st.version += 1
            return k(st, Sym(NONE))
        if name == "copy":
            return k(st, new_list(I, st, l))
    if isinstance(recv, LSet):
        if name in ("union",):
            other = args[0]
            if isinstance(other, LSet):
                return k(st, LSet(recv.items | other.items, recv.frozen))
    if isinstance(recv, RegexV):
        from . import regex
        return regex.call(I, st, recv, name, args, kwargs, fr, k)
    if isinstance(recv, Sym):
        from . import strings
        return strings.call_method(I, st, recv, name, args, kwargs, fr, k)
    raise Unsupported(f"method {name} on {recv!r}")
