"""Property runner: `python3-vt -m pyvc.run <Cxx> <quick|thorough> [--update-lock] [--replay file]`.

Exit codes (DESIGN §3): 0 held / 1 violation (+ `VIOLATION property=<id> replay=<path>`) /
2 undecided / 3 checker error or vacuity.
"""
from __future__ import annotations
import sys, os, json, time, importlib, glob, traceback, multiprocessing as mp, hashlib

VERIF = os.path.dirname(os.path.dirname(os.path.abspath(__file__)))
sys.path.insert(0, VERIF)

import z3
from pyvc.world import World, Unsupported, SpecError
from pyvc.engine import Interp
from pyvc import dsl, verify, par

G = {}          # world/registry shared with forked workers


def load_all(prop_cfg):
    w = World()
    for p in sorted(glob.glob(os.path.join(VERIF, "specs", "*.py"))):
        w.load_specs(p)
    dsl.REG.world = w
    for m in prop_cfg.get("contracts", []):
        importlib.import_module("contracts." + m)
    return w


def known_for(prop):
    path = os.path.join(VERIF, "known_findings.json")
    if not os.path.exists(path):
        return []
    return [e for e in json.load(open(path)) if e.get("property") == prop]


def discharge_one(args):
    I, ob, ent, timeout_ms, seed, both, q = args
    rec = {"name": ob.name, "kind": ob.kind, "trace": ob.trace[-8:], "clause": ob.clause, "qual": q, "size": len(ob.pc)}
    if ent is not None and ent.get("witness") and ob.ctx is not None:
        st, env, site_env = ob.ctx
        if ent.get("at") == "site" or ob.kind in ("site", "excpost", "raises"):
            # witness over the state in which the obligation is stated (site / exit), old(...) = function entry
            wenv = dict(env); wenv.update({"caller_" + k_: v for k_, v in st.env.items()}); wenv.update(site_env or {})
            try:
                wit = I.spec_bool(st, ent["witness"], wenv, old=st.old)
            except Unsupported:
                wit = z3.BoolVal(False)      # the witness names something that does not exist on this path: not the known region
        else:
            wit = I.spec_bool_old(st, ent["witness"], env) if st.old is not None else I.spec_bool(st, ent["witness"], env)
        ob_out = verify.Oblig(ob.name, ob.pc + [z3.Not(wit)], ob.goal, ob.trace, ob.func, ob.kind, ob.extra)
        d = verify.discharge(ob_out, timeout_ms, seed)
        ob_in = verify.Oblig(ob.name, ob.pc + [wit], ob.goal, ob.trace, ob.func, ob.kind, ob.extra)
        din = verify.discharge(ob_in, timeout_ms, seed, use_cvc5=False)
        rec["known"] = {"text": ent["text"], "inside_witness": din["verdict"], "model": din.get("model")}
    else:
        d = verify.discharge(ob, timeout_ms, seed)
        if both and d["verdict"] == "unsat" and d["backend"] == "z3":
            s = z3.Solver(); s.add(*ob.pc); s.add(z3.Not(ob.goal))
            rec["cvc5_second_opinion"] = verify.cvc5_check(s, timeout_ms)
    rec.update(d)
    return rec


def worker(task):
    q, prop, timeout_ms, seed, both, inner = task
    t0 = time.time()
    w = G["world"]
    I = Interp(w, dsl.REG)
    out = {"q": q, "status": "ok", "reason": "", "obligs": [], "paths": 0, "stats": {}}
    try:
        r = verify.verify_function(I, q, prop)
        out.update(status=r.status, reason=r.reason, paths=r.paths, exits=r.exits, requires_sat=r.requires_sat)
        out["gen_time_s"] = round(time.time() - t0, 2)
        known = {e["obligation"]: e for e in G["known"] if e.get("status") == "known" and e.get("obligation")}
        # group obligations into slices for forked discharge
        obs = r.obligs
        n = max(inner, 6) if len(obs) > 24 else 1
        slices = [obs[i::n] for i in range(n)]
        def do_slice(sl):
            out_ = []
            for ob in sl:
                r_ = par.fork_call(lambda ob=ob: discharge_one((I, ob, known.get(ob.name), timeout_ms, seed, both, q)),
                                   deadline_s=25 * timeout_ms / 1000 + 10)
                if r_[0] == "ok":
                    out_.append(r_[1])
                else:
                    out_.append({"name": ob.name, "kind": ob.kind, "trace": ob.trace[-8:], "clause": ob.clause, "qual": q,
                                 "size": len(ob.pc), "verdict": "unknown", "backend": "z3", "time_s": 25 * timeout_ms / 1000 + 10,
                                 "reason": "solver exceeded the hard wall-clock limit" if r_[0] == "killed" else r_[1][-500:]})
            return out_
        for res in par.fork_map(do_slice, slices, n):
            if res[0] != "ok":
                raise RuntimeError("discharge child failed: " + res[1])
            out["obligs"] += res[1]
        out["stats"] = {k: (sorted(v) if isinstance(v, set) else v) for k, v in I.stats.items()}
    except Exception as e:      # engine crash
        out["status"] = "crash"
        out["reason"] = "".join(traceback.format_exception(type(e), e, e.__traceback__))[-3000:]
    out["time_s"] = round(time.time() - t0, 3)
    return out


def run_property(prop, tier, seed, update_lock=False):
    from props import PROPS
    t0 = time.time()
    cfg = PROPS[prop]
    w = load_all(cfg)
    G["world"] = w
    G["known"] = known_for(prop)
    funcs = [q for q, c in dsl.REG.contracts.items() if c.mode == "verify" and prop in c.props]
    timeout_ms = 10000 if tier == "quick" else 60000
    nproc = int(os.environ.get("PYVC_PROCS", "14"))
    outer = max(1, min(len(funcs), 8))
    inner = max(1, nproc // outer)
    tasks = [(q, prop, timeout_ms, seed, tier == "thorough", inner) for q in funcs]
    results = []
    gen_deadline = int(os.environ.get("PYVC_FUNC_DEADLINE", "420" if tier == "quick" else "1800"))
    for task, res in zip(tasks, par.fork_map(worker, tasks, outer, deadline_s=gen_deadline)):
        if res[0] != "ok" and res[1].startswith("TIMEOUT"):
            results.append({"q": task[0], "status": "undecided", "reason": res[1], "obligs": []})
        elif res[0] != "ok":
            results.append({"q": "?", "status": "crash", "reason": res[1], "obligs": []})
        else:
            results.append(res[1])
    extra_results = []
    for fn in cfg.get("extra", []):
        mod, _, name = fn.rpartition(".")
        f = getattr(importlib.import_module(mod), name)
        extra_results.append(f(w, tier, seed))
    for bm in cfg.get("bounded", []):
        from pyvc import bounded
        extra_results.append(bounded.runner(bm, prop)(w, tier, seed))
    return finish(prop, tier, seed, cfg, w, results, extra_results, t0, update_lock)


def finish(prop, tier, seed, cfg, w, results, extra_results, t0, update_lock):
    names = {}
    undecided, crashes, violations, known_lines = [], [], [], []
    bviol = []
    solver_time = 0.0
    backends = {"z3": 0, "cvc5": 0}
    instances = 0
    samples = []
    funcs_ev = []
    assumptions = set(cfg.get("assumptions", []))
    for r in results:
        q = r["q"]
        if r["status"] == "undecided":
            undecided.append(f"{q}: {r['reason']}")
        elif r["status"] in ("crash", "error"):
            crashes.append(f"{q}: {r['reason']}")
        base_q = q.split("@")[0]
        if base_q in w.funcs:
            fe = w.func_evidence(base_q)
            fe["contract"] = q
            fe.update(paths=r.get("paths"), exits=r.get("exits"), obligations=len(r["obligs"]), time_s=r.get("time_s"),
                      status=r["status"])
            funcs_ev.append(fe)
        for n in (r.get("stats") or {}).get("builtins_used", []):
            if not n.startswith("model:"):
                assumptions.add("engine: " + n)
        for n in (r.get("stats") or {}).get("assumed_used", []):
            assumptions.add("assumed contract: " + n)
        for o in r["obligs"]:
            instances += 1
            solver_time += o.get("time_s", 0)
            ent = names.setdefault(o["name"], {"instances": 0, "unsat": 0, "bad": []})
            ent["instances"] += 1
            if o["verdict"] == "unsat":
                ent["unsat"] += 1
                backends[o.get("backend", "z3")] += 1
            else:
                ent["bad"].append(o)
            if "known" in o:
                rank = {"sat": 2, "unknown": 1}.get(o["known"]["inside_witness"], 0)
                if ent.get("known") is None or rank > {"sat": 2, "unknown": 1}.get(ent["known"]["inside_witness"], 0):
                    ent["known"] = o["known"]
            if len(samples) < 6 and o["verdict"] == "unsat" and o["kind"] in ("post", "excpost", "raises", "inv", "site", "frame"):
                if not any(s["obligation"] == o["name"] for s in samples):
                    samples.append({"obligation": o["name"], "verdict": "discharged", "backend": o.get("backend"),
                                    "time_s": o.get("time_s"), "path_trace": o["trace"], "hypotheses": o.get("size")})
    for er in extra_results:
        for o in er.get("obligations", []):
            ent = names.setdefault(o["name"], {"instances": 0, "unsat": 0, "bad": []})
            ent["instances"] += 1
            instances += 1
            solver_time += o.get("time_s", 0)
            if o["verdict"] == "unsat":
                ent["unsat"] += 1
                backends[o.get("backend", "z3")] = backends.get(o.get("backend", "z3"), 0) + 1
            else:
                ent["bad"].append(o)
            if "known" in o:
                ent["known"] = o["known"]
        undecided += er.get("undecided", [])
        crashes += er.get("errors", [])
        known_lines += er.get("known_lines", [])
        bviol += er.get("bounded_failures", [])
        assumptions |= set(er.get("assumptions", []))
        samples += er.get("samples", [])[:3]
    # ---- lock: every obligation discharged on the pinned tree must be generated again
    lock_path = os.path.join(VERIF, "obligations.lock")
    lock = json.load(open(lock_path)) if os.path.exists(lock_path) else {}
    if update_lock:
        lock[prop] = sorted(names)
        json.dump(lock, open(lock_path, "w"), indent=0, sort_keys=True)
    missing = sorted(set(lock.get(prop, [])) - set(names))
    if missing and not (undecided or crashes):
        undecided.append("locked obligations no longer generated: " + ", ".join(missing[:8]) + (" ..." if len(missing) > 8 else ""))
    # ---- verdicts
    discharged = 0
    os.makedirs(os.path.join(VERIF, "replays", prop), exist_ok=True)
    for name, ent in sorted(names.items()):
        if not ent["bad"]:
            discharged += 1
            if "known" in ent:
                kn = ent["known"]
                if kn["inside_witness"] in ("sat", "unknown"):
                    how = "counter-model found inside the recorded region" if kn["inside_witness"] == "sat" else "recorded region not re-decided within the solver budget"
                    known_lines.append(f"KNOWN-FINDING: property={prop} {kn['text']} [obligation {name}; proved outside the recorded region; {how}]")
                else:
                    print(f"note: known finding on {name} no longer reproduces inside its witness region ({kn['inside_witness']})")
            continue
        sat = [o for o in ent["bad"] if o["verdict"] == "sat"]
        if sat:
            violations.append((name, sat[0], ent))
        else:
            undecided.append(f"{name}: solver {ent['bad'][0]['verdict']} ({ent['bad'][0].get('reason','')})")
    bounded = [er["bounded"] for er in extra_results if er.get("bounded")]
    wall = round(time.time() - t0, 2)
    level = cfg.get("level", "proof")
    ev = {
        "property_id": prop, "tier": tier, "seed": seed, "level": level,
        "coverage": {
            "obligations": len(names), "discharged": discharged, "obligation_instances": instances,
            "checker_cmd": f"./check {prop} {tier}",
            "trusted_base": cfg.get("trusted_base", []) + [
                "pyvc symbolic executor and AST->SMT translation (this repository, /verif/pyvc)",
                "z3 %s, cvc5 1.0.3" % z3.get_version_string(),
                "facts probe: class hierarchy / constants / regex trees read from the running interpreter"],
            "functions_under_contract": funcs_ev,
            "backends": backends, "solver_time_s": round(solver_time, 2),
            "samples": samples or [{"note": "no obligation discharged"}],
            "undecided": undecided, "known_findings": known_lines,
            "bounded": bounded,
            "not_decided_clauses": cfg.get("not_decided", []),
            "extraction_dropped": ["type annotations", "docstrings", "typing.cast (identity)", "if TYPE_CHECKING blocks",
                                   "effects of log.*/sys.audit calls (arguments still evaluated)"],
            "explanation": cfg.get("explanation", ""),
        },
        "assumptions": sorted(assumptions),
        "wall_s": wall, "violations": len(violations) + len(bviol),
    }
    if bounded:
        ev["coverage"]["evaluations"] = sum(b.get("evaluations", 0) for b in bounded)
        ev["coverage"]["distinct_nontrivial"] = sum(b.get("distinct_nontrivial", 0) for b in bounded)
        ev["coverage"]["rule"] = " | ".join(b.get("rule", "") for b in bounded)
    # evidence of a run against a scratch copy (PYVC_SRC set by the developer tools) never overwrites the committed record
    evdir = os.path.join(VERIF, "evidence") if os.environ.get("PYVC_SRC", "/repo/src") == "/repo/src" else os.path.join(VERIF, ".tmp", "evidence_scratch")
    os.makedirs(evdir, exist_ok=True)
    json.dump(ev, open(os.path.join(evdir, f"{prop}.json"), "w"), indent=1, default=str)
    for l in known_lines:
        print(l)
    print(f"{prop} {tier}: {discharged}/{len(names)} obligations discharged ({instances} path instances), "
          f"{len(funcs_ev)} functions, solver {solver_time:.1f}s, wall {wall}s")
    if crashes:
        for c in crashes:
            print("ERROR", c)
        return 3
    if violations or bviol:
        from pyvc import replay
        for name, o, ent in violations:
            path = replay.write_and_run(prop, name, o, w)
            print(f"VIOLATION property={prop} replay={path[0]}{'' if path[1] else ' no-failing-input-found'}")
        for rec in bviol:
            path = replay.write_bounded(prop, rec, w)
            print(f"VIOLATION property={prop} replay={path}")
        return 1
    if undecided:
        for u in undecided:
            print("UNDECIDED", u)
        return 2
    if len(names) == 0 and not any(b.get("evaluations", 0) > 0 for b in bounded):
        print("ERROR no obligations generated and no bounded evaluations")
        return 3
    return 0


def main():
    args = sys.argv[1:]
    if "--replay" in args:
        from pyvc import replay
        return replay.rerun(args[args.index("--replay") + 1])
    prop = args[0]
    tier = args[1] if len(args) > 1 and not args[1].startswith("--") else os.environ.get("VERIF_TIER", "quick")
    seed = int(os.environ.get("VERIF_SEED", "0"))
    try:
        return run_property(prop, tier, seed, update_lock="--update-lock" in args)
    except Exception:
        traceback.print_exc()
        return 3


if __name__ == "__main__":
    sys.exit(main())
