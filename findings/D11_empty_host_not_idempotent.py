"""Known finding D11 (C14): parse_url is not idempotent for an http URL with an empty host.
Run: PYTHONPATH=/repo/src /venv/bin/python findings/D11_empty_host_not_idempotent.py   (exit 1 = defect present)"""
import sys
from urllib3.util import parse_url
u = parse_url("http://:/x")
u2 = parse_url(u.url)
print(tuple(u), "->", u.url, "->", tuple(u2))
sys.exit(1 if u != u2 else 0)
