"""Known finding D10 (C02): _put_conn raises AttributeError when close() races between queue.Full and the log call.
The interference is injected deterministically through QueueCls (put() performs the concurrent close() before raising Full).
Run: PYTHONPATH=/repo/src /venv/bin/python findings/D10_put_conn_attribute_error_after_racing_close.py   (exit 1 = defect present)"""
import sys, queue
from urllib3.connectionpool import HTTPConnectionPool

class Q(queue.LifoQueue):
    owner = None
    def put(self, item, block=True, timeout=None):
        if Q.owner is not None and not self.empty() and item is not None:
            Q.owner.pool = None          # what a concurrent close() does first
            raise queue.Full
        return super().put(item, block, timeout)

class Pool(HTTPConnectionPool):
    QueueCls = Q

p = Pool("h.test", maxsize=1)
Q.owner = p
conn = p._new_conn()
try:
    p._put_conn(conn)
    print("discarded quietly"); sys.exit(0)
except AttributeError as e:
    print("AttributeError:", e); sys.exit(1)
