"""Known finding D8 (C11): generator body re-sent empty after a retry.
Run: cd /verif && PYTHONPATH=/repo/src /venv/bin/python findings/D8_one_shot_body_resent_empty.py   (exit 1 = defect present)"""
import sys, os
sys.path.insert(0, os.path.dirname(os.path.dirname(os.path.abspath(__file__))))
from bounded.netsim import Net, response
from urllib3.connectionpool import HTTPConnectionPool
from urllib3.util.retry import Retry
net = Net(lambda req, sock: response(503, [("Retry-After", "0")]) if len(net.requests) == 1 else response(200, body=b"ok"))
with net.installed():
    HTTPConnectionPool("h.test", retries=Retry(3, status_forcelist=[503], allowed_methods=None)).urlopen("PUT", "/", body=(x for x in [b"pay", b"load"]))
print([(q["line"], q["body"]) for q in net.requests])
sys.exit(1 if net.requests[1]["body"] == b"0\r\n\r\n" else 0)
