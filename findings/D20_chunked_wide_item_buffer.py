"""Known finding D20 (C11): chunked=True with array('H') body writes a chunk-size line counting items, not bytes.
Run: cd /verif && PYTHONPATH=/repo/src /venv/bin/python findings/D20_chunked_wide_item_buffer.py   (exit 1 = defect present)"""
import sys, os, array
sys.path.insert(0, os.path.dirname(os.path.dirname(os.path.abspath(__file__))))
from bounded.netsim import Net, response
from urllib3.connection import HTTPConnection
net = Net(lambda req, sock: response(200, body=b"ok"))
with net.installed():
    c = HTTPConnection("h.test"); c.request("PUT", "/", body=array.array("H", [1, 2, 3]), chunked=True)
wire = b"".join(d for _, d in net.wire)
body = wire[wire.index(b"\r\n\r\n") + 4:]
print(body)
sys.exit(1 if body.startswith(b"3\r\n") and len(body) != len(b"3\r\n") + 3 + len(b"\r\n0\r\n\r\n") else 0)
