"""Known finding D15 (C06): forwarding proxy + redirect to the proxy's own host:port keeps Authorization.
Run: cd /verif && PYTHONPATH=/repo/src /venv/bin/python findings/D15_redirect_to_proxy_origin_keeps_credentials.py   (exit 1 = defect present)"""
import sys, os
sys.path.insert(0, os.path.dirname(os.path.dirname(os.path.abspath(__file__))))
from bounded.netsim import Net, response
from urllib3 import ProxyManager

def handler(req, sock):
    if len(net.requests) == 1:
        return response(302, [("Location", "http://px.test:3128/x")])
    return response(200, body=b"ok")
net = Net(handler)
with net.installed():
    ProxyManager("http://px.test:3128").urlopen("GET", "http://a.test/", headers={"Authorization": "s3cr3t"})
for q in net.requests:
    print(q["line"], [h for h in q["headers"] if h[0].lower() == "authorization"])
leak = any(h[0].lower() == "authorization" for h in net.requests[1]["headers"])
sys.exit(1 if leak else 0)
