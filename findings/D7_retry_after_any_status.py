"""Known finding D7 (C04): Retry.sleep honours Retry-After for a status outside {413, 429, 503}.
Run: PYTHONPATH=/repo/src /venv/bin/python findings/D7_retry_after_any_status.py   (exit 1 = defect present)"""
import sys, time
from urllib3.util.retry import Retry
from urllib3.response import HTTPResponse
slept = []
time.sleep = lambda s: slept.append(s)
r = Retry(total=3, status_forcelist=[500], backoff_factor=0)
resp = HTTPResponse(status=500, headers={"Retry-After": "3600"})
r.sleep(resp)
print("slept:", slept)
sys.exit(1 if slept == [3600] else 0)
