"""Known finding D19 (C13): an incomplete zstd frame read through stream() ends normally.
Run: cd /verif && PYTHONPATH=/repo/src /venv/bin/python findings/D19_incomplete_zstd_streamed.py   (exit 1 = defect present)"""
import sys, os
sys.path.insert(0, os.path.dirname(os.path.dirname(os.path.abspath(__file__))))
from bounded.netsim import Net
from urllib3.connectionpool import HTTPConnectionPool
import zstandard
frame = zstandard.ZstdCompressor().compress(b"hello world")
cut = frame[:8]
def handler(req, sock):
    sock.rx.feed(b"HTTP/1.1 200 X\r\nContent-Encoding: zstd\r\nConnection: close\r\n\r\n" + cut); return None
net = Net(handler)
with net.installed():
    r = HTTPConnectionPool("h.test").urlopen("GET", "/", preload_content=False)
    try:
        got = b"".join(r.stream(5)); print("stream ended normally with", got); bad = 1
    except Exception as e:
        print("raised", type(e).__name__); bad = 0
sys.exit(bad)
