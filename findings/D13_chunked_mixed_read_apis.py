"""Known finding D13 (C12): chunked response, read(n) then stream(): bytes lost / ProtocolError.
Run: cd /verif && PYTHONPATH=/repo/src /venv/bin/python findings/D13_chunked_mixed_read_apis.py   (exit 1 = defect present)"""
import sys, os
sys.path.insert(0, os.path.dirname(os.path.dirname(os.path.abspath(__file__))))
from bounded.netsim import Net, response
from urllib3.connectionpool import HTTPConnectionPool
body = b"5\r\nhello\r\n6\r\n world\r\n0\r\n\r\n"
net = Net(lambda req, sock: response(200, [("Transfer-Encoding", "chunked")], body))
with net.installed():
    r = HTTPConnectionPool("h.test").urlopen("GET", "/", preload_content=False)
    try:
        got = r.read(3) + b"".join(r.stream(4))
        print("got", got)
        ok = got == b"hello world"
    except Exception as e:
        print("raised", type(e).__name__, e); ok = False
sys.exit(0 if ok else 1)
