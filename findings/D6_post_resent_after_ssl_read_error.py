"""Known finding D5/D6 (C04): a POST is re-sent after ssl.SSLError while reading the response (classed 'other', not 'read').
Run: PYTHONPATH=/repo/src /venv/bin/python findings/D6_post_resent_after_ssl_read_error.py   (exit 1 = defect present)"""
import ssl, sys
from urllib3.connection import HTTPConnection
from urllib3.connectionpool import HTTPConnectionPool
from urllib3.util.retry import Retry
from urllib3.exceptions import MaxRetryError, SSLError

sent = []


class Conn(HTTPConnection):
    def connect(self):
        self.sock = type("S", (), {"settimeout": lambda s, t: None, "close": lambda s: None})()

    def request(self, method, url, body=None, headers=None, **kw):
        if self.sock is None:
            self.connect()
        sent.append((method, url))

    def getresponse(self):
        raise ssl.SSLError("decryption failed or bad record mac")


class Pool(HTTPConnectionPool):
    ConnectionCls = Conn


p = Pool("example.test", retries=Retry(total=3, backoff_factor=0))
try:
    p.urlopen("POST", "/pay", body=b"x")
except (MaxRetryError, SSLError) as e:
    print("raised", type(e).__name__)
print("requests put on the wire:", sent)
sys.exit(1 if len(sent) > 1 else 0)
