"""Fixed finding D21 (C11): a 303 answer to a request with a seekable file body made HTTPConnectionPool.urlopen raise
ValueError('body_pos must be of type integer...') instead of following up with a body-less GET.
Run: cd /verif && PYTHONPATH=/repo/src /venv/bin/python findings/D21_303_with_file_body.py   (exit 1 = defect present)"""
import sys, os, io
sys.path.insert(0, os.path.dirname(os.path.dirname(os.path.abspath(__file__))))
from bounded.netsim import Net, response
from urllib3.connectionpool import HTTPConnectionPool
net = Net(lambda req, sock: response(303, [("Location", "/next")]) if len(net.requests) == 1 else response(200, body=b"ok"))
with net.installed():
    try:
        r = HTTPConnectionPool("h.test").urlopen("PUT", "/", body=io.BytesIO(b"payload"), redirect=True)
        print("status", r.status, [q["line"] for q in net.requests]); bad = 0
    except ValueError as e:
        print("ValueError:", e); bad = 1
sys.exit(bad)
