"""Known finding D18 (C13): malformed chunk-size lines accepted.
Run: cd /verif && PYTHONPATH=/repo/src /venv/bin/python findings/D18_lenient_chunk_size_lines.py   (exit 1 = defect present)"""
import sys, os
sys.path.insert(0, os.path.dirname(os.path.dirname(os.path.abspath(__file__))))
from bounded.netsim import Net, response
from urllib3.connectionpool import HTTPConnectionPool
bad = 0
for line in (b"+5", b" 5", b"0x5", b"0_5"):
    net = Net(lambda req, sock: response(200, [("Transfer-Encoding", "chunked")], line + b"\r\nhello\r\n0\r\n\r\n"))
    with net.installed():
        try:
            got = b"".join(HTTPConnectionPool("h.test").urlopen("GET", "/", preload_content=False).stream(4))
            print(line, "accepted ->", got); bad = 1
        except Exception as e:
            print(line, "rejected:", type(e).__name__)
sys.exit(bad)
