"""Known finding D14 (C01): an exception raised in urlopen's try before a connection was checked out makes the
finally block put back a None that was never taken.
Run: PYTHONPATH=/repo/src /venv/bin/python findings/D14_put_without_checkout.py   (exit 1 = defect present)"""
import sys
from urllib3.connectionpool import HTTPConnectionPool
from urllib3.exceptions import FullPoolError

bad = 0
p = HTTPConnectionPool("example.test", maxsize=1, block=True)
try:
    p.urlopen("GET", "/", timeout=0)          # invalid per-request timeout: ValueError expected
except ValueError:
    print("block=True: ValueError (ok)")
except FullPoolError as e:
    print("block=True: FullPoolError masks the ValueError:", e); bad = 1
p2 = HTTPConnectionPool("example.test", maxsize=1, block=False)
before = p2.pool.qsize()
try:
    p2.urlopen("GET", "/", timeout=-1)
except ValueError:
    pass
print("block=False: queue size before/after:", before, p2.pool.qsize(), "(a None that was never taken was put back and discarded)" )
sys.exit(bad)
