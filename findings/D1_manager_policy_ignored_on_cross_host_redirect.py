"""Fixed finding D1/D16 (C05, C06): a retry/redirect policy (and remove_headers_on_redirect) given to the PoolManager constructor was ignored for cross-host redirects.
Run: PYTHONPATH=/repo/src /venv/bin/python findings/D1_manager_policy_ignored_on_cross_host_redirect.py   (exit 1 = defect present)"""
import sys
from urllib3 import PoolManager
from urllib3.connection import HTTPConnection
from urllib3.connectionpool import HTTPConnectionPool
from urllib3.response import HTTPResponse
from urllib3.util.retry import Retry
import urllib3.poolmanager as pm
hosts = []
class Conn(HTTPConnection):
    def connect(self): self.sock = type("S", (), {"settimeout": lambda s, t: None, "close": lambda s: None})()
    def request(self, method, url, body=None, headers=None, **kw):
        if self.sock is None: self.connect()
        hosts.append((self.host, dict(headers or {})))
    def getresponse(self):
        return HTTPResponse(status=302, headers={"Location": "http://b.test/next"}, preload_content=False, request_method="GET") if self.host == "a.test" else HTTPResponse(status=200, preload_content=False)
class Pool(HTTPConnectionPool):
    ConnectionCls = Conn
pm.pool_classes_by_scheme["http"] = Pool
bad = 0
for label, kw in [("retries=False", dict(retries=False)), ("retries=0", dict(retries=0)), ("Retry(redirect=0)", dict(retries=Retry(redirect=0, raise_on_redirect=False)))]:
    hosts.clear()
    m = PoolManager(**kw)
    try:
        r = m.request("GET", "http://a.test/")
        out = r.status
    except Exception as e:
        out = type(e).__name__
    print(label, "->", out, [h for h, _ in hosts])
    if "b.test" in [h for h, _ in hosts]: bad = 1
hosts.clear()
m = PoolManager(retries=Retry(remove_headers_on_redirect=["X-Secret"]))
m.request("GET", "http://a.test/", headers={"X-Secret": "s3cr3t"})
print("manager-level remove_headers_on_redirect:", hosts)
if any(h == "b.test" and "X-Secret" in hd for h, hd in hosts): bad = 1
sys.exit(bad)
