"""C01 / C02: the bodies of HTTPConnectionPool._get_conn / _put_conn verified against the lease-accounting contracts that
urlopen uses, with `self.pool` VOLATILE (another thread may close() the pool between any two reads: rely = monotone to
None) and the queue at an assumed linearizable contract.  Ghost `out` counts connections handed out."""
from pyvc.dsl import contract, field

P = "urllib3.connectionpool.HTTPConnectionPool"
CONN = "urllib3.connection.HTTPConnection"
Q = "queue.Queue"
field(P, "pool", "queue.LifoQueue")

c = contract(f"{Q}.get").params("self", "block", "timeout").assumed(
    "linearizable bounded LIFO: pops an item or raises queue.Empty (at once when block is false); an interrupt while blocked "
    "propagates (ghost oracle getconn_fault == 1). A failed non-blocking get entitles the caller to a fresh connection (counted as handed out)")
c.ghost("out").ghost("checkouts").ghost("getconn_fault")
c.requires("is_int(ghost.out) and is_int(ghost.checkouts)")
c.modifies("ghost.out", "ghost.checkouts")
c.ensures("(result is None or (isinstance(result, HTTPConnection) and valid_conn(result))) and is_int(ghost.out) and ghost.out == old(ghost.out) + 1"
          " and is_int(ghost.checkouts) and ghost.checkouts == old(ghost.checkouts) + 1")
c.raises("Empty", ensures="is_int(ghost.out) and is_int(ghost.checkouts) and ghost.out == old(ghost.out) + (0 if block else 1) and ghost.checkouts == old(ghost.checkouts) + (0 if block else 1)")
c.raises("BaseException", when="ghost.getconn_fault == 1", ensures="ghost.out is old(ghost.out) and ghost.checkouts is old(ghost.checkouts) and not isinstance(exc, Exception)")

c = contract(f"{Q}.put").params("self", "item", "block", "timeout").assumed("pushes or raises queue.Full (at once when block is false)")
c.ghost("out")
c.requires("is_int(ghost.out)")
c.modifies("ghost.out")
c.ensures("is_int(ghost.out) and ghost.out == old(ghost.out) - 1")
c.raises("Full", ensures="ghost.out is old(ghost.out)")

c = contract(f"{Q}.qsize").params("self").assumed("approximate size")
c.modifies()
c.ensures("is_int(result)")

c = contract("urllib3.util.connection.is_connection_dropped")
c.assumed("polls the idle socket (wait_for_read): True iff EOF or unsolicited bytes are pending; assumed not to raise")
c.types(conn=CONN)
c.modifies()
c.ensures("isinstance(result, bool)")

c = contract(f"{P}._new_conn")
c.assumed("ConnectionCls(host, port, timeout=connect_timeout, **conn_kw): a fresh, valid, unconnected connection; a constructor failure after the slot was taken is the ghost oracle getconn_fault == 2")
c.ghost("getconn_fault")
c.modifies("self.num_connections")
c.ensures("fresh(result) and isinstance(result, HTTPConnection) and valid_conn(result) and result.sock is None")
c.raises("BaseException", when="ghost.getconn_fault == 2", ensures="not isinstance(exc, (HTTPError, OSError, HTTPException))")
c.result_hint = CONN

for variant in ("interference",):
    c = contract(f"{P}._get_conn", prop="C02", variant=variant)
    c.props.add("C01")
    c.types(timeout="any")
    c.volatile_fields = {"pool"}
    for g in ("out", "checkouts", "getconn_fault"):
        c.ghost(g)
    c.requires("is_int(ghost.out) and is_int(ghost.checkouts)")
    c.requires("isinstance(self.block, bool)")
    c.requires("self.pool is None or isinstance(self.pool, K('queue.LifoQueue'))")
    c.modifies("ghost.out", "ghost.checkouts", "self.num_connections", "*.sock", "*.is_verified", "*.proxy_is_verified", "*._has_connected_to_proxy",
               "*._response_options", "*._tunnel_host", "*._tunnel_port", "*._tunnel_scheme")
    c.ensures("isinstance(result, HTTPConnection) and valid_conn(result)", "returns-a-valid-connection")
    c.ensures("ghost.out == old(ghost.out) + 1 and ghost.checkouts == old(ghost.checkouts) + 1", "lease-taken")
    c.raises("ClosedPoolError", ensures="ghost.out == old(ghost.out)", name="closed:no-lease")
    c.raises("EmptyPoolError", when="self.block", ensures="ghost.out == old(ghost.out)", name="empty-and-blocking:no-lease")
    c.raises("BaseException", when="ghost.getconn_fault == 1", ensures="implies(not isinstance(exc, HTTPError), ghost.out == old(ghost.out) and not isinstance(exc, Exception))", name="interrupted-before-a-slot-was-taken")
    c.raises("BaseException", when="ghost.getconn_fault == 2", ensures="implies(not isinstance(exc, HTTPError), ghost.out == old(ghost.out) + 1 and not isinstance(exc, (OSError, HTTPException)))", name="failed-after-the-slot-was-taken")

    c = contract(f"{P}._put_conn", prop="C02", variant=variant)
    c.props.add("C01")
    c.types(conn="opt:HTTPConnection")
    c.volatile_fields = {"pool"}
    c.ghost("out")
    c.requires("is_int(ghost.out) and isinstance(self.block, bool)")
    c.requires("self.pool is None or isinstance(self.pool, K('queue.LifoQueue'))")
    c.modifies("ghost.out", "conn.sock", "conn.is_verified", "conn.proxy_is_verified", "conn._has_connected_to_proxy", "conn._response_options",
               "conn._tunnel_host", "conn._tunnel_port", "conn._tunnel_scheme")
    c.ensures("implies(conn is not None, conn.sock is None or conn.sock is old(conn.sock))", "a-connection-is-at-most-closed-never-reopened")
    c.ensures("ghost.out == old(ghost.out) - 1 or (conn is None or conn.sock is None)", "returned-to-the-queue-or-closed-and-discarded")
    c.raises("FullPoolError", when="self.block", ensures="implies(conn is not None, conn.sock is None)", name="full-and-blocking:connection-closed")
    c.tag("C02", "raises-only")       # which exception classes may escape under a racing close() is C02's statement; C01 is the lease accounting
