"""Contracts for urllib3.connectionpool (C01, C03, C04, C11, C13, C19, C09) and the connection-level
dependencies they rely on (assumed contracts on the http.client / socket boundary)."""
from pyvc.dsl import contract, field

P = "urllib3.connectionpool.HTTPConnectionPool"
CONN = "urllib3.connection.HTTPConnection"
RESP = "urllib3.response.BaseHTTPResponse"
T = "urllib3.util.timeout.Timeout"

field(P, "timeout", T)
field(P, "retries", "urllib3.util.retry.Retry")
field(P, "proxy", "urllib3.util.url.Url")
field(CONN, "proxy", "urllib3.util.url.Url")
field(RESP, "retries", "urllib3.util.retry.Retry")

# ------------------------------------------------------------------ connection boundary (assumed)
c = contract(f"{CONN}.request")
c.assumed("http.client boundary: may write to the socket (ghost.phase becomes 1 = request possibly on the wire), may auto-connect, may raise anything")
c.ghost("sends").ghost("req_timeout")
c.requires("is_int(ghost.sends)")
c.modifies("self.sock", "self._response_options", "self._has_connected_to_proxy", "self.is_verified", "self.proxy_is_verified", "ghost.sends", "ghost.req_timeout")
c.ensures("is_int(ghost.sends) and ghost.sends == old(ghost.sends) + 1 and ghost.req_timeout is old(self.timeout)")
c.raises("BaseException", ensures="is_int(ghost.sends) and ghost.sends == old(ghost.sends) + 1 and ghost.req_timeout is old(self.timeout)")

c = contract(f"{CONN}.getresponse")
c.assumed("http.client boundary: waits for and parses the response head with the socket timeout currently set on the connection; returns a fresh response; may raise anything; may close the connection")
c.ghost("waits")
c.requires("is_int(ghost.waits)")
c.modifies("self.sock", "self._response_options", "self._has_connected_to_proxy", "ghost.waits")
c.ensures("fresh(result) and isinstance(result, BaseHTTPResponse) and valid_response(result) and is_int(ghost.waits) and ghost.waits == old(ghost.waits) + 1")
c.raises("BaseException", ensures="is_int(ghost.waits) and ghost.waits == old(ghost.waits) + 1")
c.result_hint = RESP

c = contract("urllib3.connection._wrap_proxy_error")
c.assumed("builds ProxyError('Unable to connect to proxy...', err); message text irrelevant")
c.types(err="Exception", proxy_scheme="any")
c.modifies()
c.ensures("fresh(result) and isinstance(result, ProxyError) and result.original_error is err")
c.result_hint = "urllib3.exceptions.ProxyError"

# overridable hook: HTTPConnectionPool._validate_conn is a no-op, HTTPSConnectionPool._validate_conn connects.
c = contract(f"{P}._validate_conn")
c.assumed("extension point (base: no-op; HTTPS: conn.connect() + InsecureRequestWarning): may connect the socket, may raise anything; does not touch the request phase")
c.types(conn=CONN)
c.modifies("conn.sock", "conn._has_connected_to_proxy", "conn.is_verified", "conn.proxy_is_verified")
c.ensures("True")
c.raises("BaseException", ensures="boundary_exception(exc)")

# ------------------------------------------------------------------ C19: _get_timeout / _raise_timeout
c = contract(f"{P}._get_timeout", prop="C19")
c.types(timeout="any")
c.requires("isinstance(self.timeout, Timeout) and valid_timeout(self.timeout)")
c.requires("implies(isinstance(timeout, Timeout), valid_timeout(timeout))")
c.modifies()
c.ensures("fresh(result) and isinstance(result, Timeout) and result._start_connect is None", "fresh-clock-not-started")
c.ensures("implies(timeout is _DEFAULT_TIMEOUT, same_timeout_values(result, self.timeout))", "pool-default-when-unset")
c.ensures("implies(isinstance(timeout, Timeout), same_timeout_values(result, timeout))", "request-override-wins")
c.ensures("implies(timeout is not _DEFAULT_TIMEOUT and not isinstance(timeout, Timeout), result._connect is timeout and result._read is timeout and result.total is None)", "number-applies-to-both")
c.ensures("valid_timeout(result)", "valid")
c.raises("ValueError", when="timeout is not _DEFAULT_TIMEOUT and not isinstance(timeout, Timeout) and not valid_tv(timeout)", iff=True, name="invalid-rejected")
c.result_hint = T

c = contract(f"{P}._raise_timeout", prop="C19")
c.types(err="BaseException", url="any", timeout_value="any")
c.modifies()
c.ensures("not is_socket_timeout(err)", "returns-only-if-not-a-timeout")
c.raises("ReadTimeoutError", when="is_socket_timeout(err) or has_blocking_errno(err)", name="timeout-translated")


# ------------------------------------------------------------------ _make_request (C19 sites, C04 phase, C01 response wiring)
c = contract(f"{P}._make_request", prop="C19")
c.props.update({"C01", "C04"})
c.types(conn=CONN, method="str", url="str", body="any", headers="any", retries="opt:Retry", timeout="any", chunked="any",
        response_conn="any", preload_content="any", decode_content="any", enforce_content_length="any")
c.ghost("clock", "float").ghost("sends").ghost("waits").ghost("req_timeout")
c.requires("isinstance(self.timeout, Timeout) and valid_timeout(self.timeout) and self.timeout._start_connect is None")
c.requires("implies(isinstance(timeout, Timeout), valid_timeout(timeout))")
c.requires("isinstance(ghost.clock, float) and is_int(ghost.sends) and is_int(ghost.waits)")
c.ensures("isinstance(ghost.clock, float) and is_int(ghost.sends) and is_int(ghost.waits)", "ghost-typed")
c.exc_ensures("isinstance(ghost.clock, float) and is_int(ghost.sends) and is_int(ghost.waits)", "ghost-typed")
c.requires("is_int(self.num_requests)")
c.requires("valid_conn(conn)")
c.requires("implies(retries is not None, valid_retry(retries))")
c.modifies("self.num_requests", "conn.timeout", "conn.sock", "conn._response_options", "conn._has_connected_to_proxy", "conn.is_verified",
           "conn.proxy_is_verified", "ghost.clock", "ghost.sends", "ghost.waits", "ghost.req_timeout")
c.raises_any = True
# the pool's own Timeout object is never written: one request's clock never influences another's (frame: self.timeout.* not in modifies)
c.ensures("fresh(result) and isinstance(result, BaseHTTPResponse) and valid_response(result)", "fresh-response")
c.ensures("is_int(self.num_requests)", "counter-typed")
c.exc_ensures("is_int(self.num_requests)", "counter-typed")
c.ensures("result._connection is response_conn and result._pool is self and result._retries is retries", "response-wired-to-pool")
c.ensures("ghost.sends == old(ghost.sends) + 1 and is_int(ghost.waits) and ghost.waits == old(ghost.waits) + 1", "one-request-one-wait")
c.exc_ensures("ghost.sends == old(ghost.sends) or ghost.sends == old(ghost.sends) + 1", "at-most-one-request-written")
c.exc_ensures("boundary_exception(exc)", "only-boundary-shaped-exceptions")
c.exc_ensures("implies(is_connect_class_b(exc), ghost.sends == old(ghost.sends))", "connect-class-errors-only-before-anything-was-written")
# C19 connect phase: the timeout in force while connecting/sending is min(connect, total) of the effective Timeout
c.site_assert("HTTPConnectionPool._validate_conn", "same_num(conn.timeout, expected_connect_timeout(self, caller_timeout)) or"
              " (expected_connect_timeout(self, caller_timeout) is _DEFAULT_TIMEOUT and (conn.timeout is None or conn.timeout >= 0))", "connect-timeout=min(connect,total)")
c.site_assert("HTTPConnection.request", "same_num(self.timeout, expected_connect_timeout(caller_self, caller_timeout)) or"
              " (expected_connect_timeout(caller_self, caller_timeout) is _DEFAULT_TIMEOUT and (self.timeout is None or self.timeout >= 0))", "send-timeout=min(connect,total)")
# the total-budget clock is started before anything that may spend time connecting (so 'time already spent connecting' is measured)
c.site_assert("HTTPConnectionPool._validate_conn", "isinstance(caller_timeout_obj._start_connect, float) and caller_timeout_obj._start_connect <= ghost.clock",
              "clock-started-before-connecting")
c.site_assert("HTTPConnection.request", "isinstance(caller_timeout_obj._start_connect, float) and caller_timeout_obj._start_connect <= ghost.clock",
              "clock-started-before-sending")
# C19 response wait
c.site_assert("HTTPConnection.getresponse",
              "implies(self.sock is not None, response_wait_ok(self.timeout, effective_timeout(caller_self, caller_timeout), ghost.clock - caller_timeout_obj._start_connect))",
              "response-wait=min(read,total-elapsed),never-zero")

# ================================================================== urlopen and its callees
URL = "urllib3.util.url.Url"
field(RESP, "headers", "urllib3._collections.HTTPHeaderDict")
field(RESP, "_connection", None)
field(P, "headers", "builtins.dict")
field(P, "proxy_headers", "builtins.dict")

# --- refine the boundary: which exception classes can come from the wire after something was written
c = contract(f"{CONN}.request")
c.raises_l.clear()
c.raises("BaseException", ensures="ghost.req_timeout is old(self.timeout) and is_int(ghost.sends) and ghost.sends == old(ghost.sends) + (0 if is_connect_class_b(exc) else 1)"
         " and boundary_exception(exc)")
c = contract(f"{CONN}.getresponse")
c.raises_l.clear()
c.raises("BaseException", ensures="is_int(ghost.waits) and ghost.waits == old(ghost.waits) + 1 and not is_connect_class_b(exc) and boundary_exception(exc)")

c = contract(f"{CONN}.close")
c.assumed("HTTPConnection.close: http.client close (assumed not to raise) then resets sock and the per-connection proxy/verification state")
c.modifies("self.sock", "self.is_verified", "self.proxy_is_verified", "self._has_connected_to_proxy", "self._response_options",
           "self._tunnel_host", "self._tunnel_port", "self._tunnel_scheme")
c.ensures("self.sock is None and self._has_connected_to_proxy is False")

c = contract(f"{P}.is_same_host")
c.assumed("pure predicate over the pool's (scheme, host, port) and the URL (verified under C06)")
c.types(url="str")
c.modifies()
c.ensures("isinstance(result, bool)")
c.raises("LocationParseError")

c = contract("urllib3.util.request.set_file_position")
c.assumed("records/rewinds the body position (its body is verified under C11, contracts/util_request.py): returns pos if given, else tell() or the failed-tell marker or None; may raise UnrewindableBodyError. "
          "ASSUMED here beyond what C11 proves: the body's tell()/seek() raise nothing but OSError, and a caller-supplied body_pos is None, an int or the failed-tell marker (otherwise ValueError / the callback's exception escapes urlopen before a connection is taken)")
c.types(body="any", pos="any")
c.modifies()
c.ensures("implies(pos is not None, result is pos)")
c.raises("UnrewindableBodyError")

c = contract(f"{P}._prepare_proxy")
c.assumed("extension point (base: no-op; HTTPS: set_tunnel + connect): may connect, may raise anything")
c.types(conn=CONN)
c.modifies("conn.sock", "conn._has_connected_to_proxy", "conn.is_verified", "conn.proxy_is_verified", "conn._tunnel_host", "conn._tunnel_port", "conn._tunnel_scheme")
c.ensures("True")
c.raises("BaseException", ensures="boundary_exception(exc)")

c = contract("sys.exc_info").params().assumed("opaque (type, value, traceback) triple")
c.modifies()
c.ensures("isinstance(result, tuple) and len(result) == 3")

c = contract(f"{P}._get_conn", prop="C01")
c.mode = "assumed"      # used at this contract by urlopen; the body is verified against it (with self.pool volatile) in contracts/pool_queue.py
c.types(timeout="any")
c.ghost("out").ghost("getconn_fault").ghost("checkouts")
c.requires("is_int(ghost.out) and is_int(ghost.checkouts)")
c.modifies("ghost.out", "ghost.checkouts", "self.num_connections")
c.ensures("isinstance(result, HTTPConnection) and valid_conn(result) and is_int(ghost.out) and ghost.out == old(ghost.out) + 1"
          " and is_int(ghost.checkouts) and ghost.checkouts == old(ghost.checkouts) + 1", "lease-taken")
c.exc_ensures("is_int(ghost.checkouts) and (ghost.checkouts == old(ghost.checkouts) + (ghost.out - old(ghost.out)))", "checkouts-follow-leases")
c.raises("ClosedPoolError", ensures="is_int(ghost.out) and ghost.out == old(ghost.out) and self.pool is None")
c.raises("EmptyPoolError", ensures="is_int(ghost.out) and ghost.out == old(ghost.out)")
c.raises("BaseException", when="ghost.getconn_fault == 1", ensures="is_int(ghost.out) and ghost.out == old(ghost.out) and not isinstance(exc, (HTTPError, OSError, HTTPException))")
c.raises("BaseException", when="ghost.getconn_fault == 2", ensures="is_int(ghost.out) and ghost.out == old(ghost.out) + 1 and not isinstance(exc, (HTTPError, OSError, HTTPException))")
c.result_hint = CONN

c = contract(f"{P}._put_conn", prop="C01")
c.mode = "assumed"
c.types(conn="opt:HTTPConnection")
c.ghost("out")
c.requires("is_int(ghost.out)")
c.modifies("ghost.out", "conn.sock", "conn.is_verified", "conn.proxy_is_verified", "conn._has_connected_to_proxy", "conn._response_options",
           "conn._tunnel_host", "conn._tunnel_port", "conn._tunnel_scheme")
c.ensures("is_int(ghost.out) and implies(self.pool is not None, ghost.out == old(ghost.out) - 1)", "slot-returned-or-connection-discarded")
c.ensures("implies(conn is not None, conn.sock is None or conn.sock is old(conn.sock))", "a-connection-is-at-most-closed-never-reopened")

c = contract(f"{RESP}.drain_conn")
c.assumed("reads the rest of the body swallowing I/O errors; the connection back-reference is released (HTTPResponse.drain_conn/_error_catcher/release_conn, verified under C01 response side)")
c.ghost("out")
c.modifies("self._connection", "self._fp", "self._body", "ghost.out")
c.ensures("self._connection is None and is_int(ghost.out) and implies(self._pool.pool is not None, ghost.out == old(ghost.out) - (0 if old(self._connection) is None else 1))")
c.raises("BaseException", ensures="self._connection is None and is_int(ghost.out) and implies(self._pool.pool is not None, ghost.out == old(ghost.out) - (0 if old(self._connection) is None else 1))"
         " and not isinstance(exc, Exception)")

c = contract("urllib3._collections.HTTPHeaderDict._prepare_for_method_change")
c.assumed("drops the content headers in place and returns self (verified under C05)")
c.modifies("self._container")
c.ensures("result is self")

c = contract("urllib3._collections.HTTPHeaderDict")
c.assumed("HTTPHeaderDict(headers): a fresh header multimap (C16)")
c.params("headers")
c.modifies()
c.ensures("fresh(result) and isinstance(result, HTTPHeaderDict)")
c.result_hint = "urllib3._collections.HTTPHeaderDict"

c = contract("urllib3.util.proxy.connection_requires_http_tunnel", prop="C09")
c.types(proxy_url="opt:Url", proxy_config="opt:ProxyConfig", destination_scheme="any")
c.requires("implies(proxy_url is not None, proxy_url.scheme is None or isinstance(proxy_url.scheme, str))")
c.modifies()
c.ensures("isinstance(result, bool)", "bool")
c.ensures("result == tunnel_required(proxy_url, proxy_config, destination_scheme)", "truth-table")
c.ensures("implies(proxy_url is None or destination_scheme == 'http', result is False)", "no-proxy-or-http-destination-never-tunnels")
c.ensures("implies(proxy_url is not None and destination_scheme == 'https' and proxy_url.scheme != 'https', result is True)", "https-via-http-proxy-always-tunnels")

# ------------------------------------------------------------------ urlopen
c = contract(f"{P}.urlopen", prop="C01")
c.props.update({"C04"})
c.types(method="str", url="str", body="any", headers="opt:dict", retries="any", redirect="bool", assert_same_host="bool", timeout="any",
        pool_timeout="any", release_conn="any", chunked="bool", body_pos="any", preload_content="bool", decode_content="bool")
c.kwarg_keys = []
for g in ("out", "sends", "waits", "req_timeout", "clock", "sleeps", "last_sleep", "getconn_fault", "checkouts"):
    c.ghost(g)
c.requires("is_int(ghost.out) and is_int(ghost.sends) and is_int(ghost.waits) and is_int(ghost.sleeps) and isinstance(ghost.clock, float) and is_int(ghost.checkouts)")
c.ensures("is_int(ghost.out) and is_int(ghost.sends) and is_int(ghost.waits) and is_int(ghost.sleeps) and isinstance(ghost.clock, float) and is_int(ghost.checkouts)", "ghost-typed")
c.exc_ensures("is_int(ghost.out) and is_int(ghost.sends) and is_int(ghost.waits) and is_int(ghost.sleeps) and isinstance(ghost.clock, float) and is_int(ghost.checkouts)", "ghost-typed")
c.requires("isinstance(self.timeout, Timeout) and valid_timeout(self.timeout) and self.timeout._start_connect is None")
c.requires("implies(isinstance(timeout, Timeout), valid_timeout(timeout))")
c.requires("retries is None or retries is False or retries is True or isinstance(retries, (int, Retry))")
c.requires("implies(isinstance(retries, Retry), valid_retry(retries))")
c.requires("self.retries is None or self.retries is False or isinstance(self.retries, (int, Retry))")
c.requires("implies(isinstance(self.retries, Retry), valid_retry(self.retries))")
c.requires("isinstance(Retry.DEFAULT, Retry) and valid_retry(Retry.DEFAULT)")
c.requires("isinstance(self.headers, dict) and isinstance(self.proxy_headers, dict)")
c.requires("self.proxy is None or isinstance(self.proxy, Url)")
c.requires("implies(self.proxy is not None, self.proxy.scheme is None or isinstance(self.proxy.scheme, str))")
c.requires("is_int(self.num_requests)")
c.requires("self.proxy_config is None or isinstance(self.proxy_config, ProxyConfig)")
c.requires("release_conn is None or isinstance(release_conn, bool)")
c.requires("valid_pool(self)")
# frame: connection state, the pool's counters, response/traceback bookkeeping and ghost accounting - nothing else that existed
# before the call is written (the caller's headers mapping, Retry and Timeout objects, the pool's configuration are untouched)
c.modifies(*[f"*.{f}" for f in ("sock", "timeout", "is_verified", "proxy_is_verified", "_has_connected_to_proxy", "_response_options",
                                "_tunnel_host", "_tunnel_port", "_tunnel_scheme", "num_requests", "num_connections", "__traceback__",
                                "_connection", "_fp", "_body", "_container")],
           *[f"ghost.{g}" for g in ("out", "sends", "waits", "req_timeout", "clock", "sleeps", "last_sleep", "checkouts")])
c.raises_any = True
# C01: lease accounting on every exit
c.ensures("isinstance(result, BaseHTTPResponse) and valid_response(result)", "returns-response")
c.ensures("implies(self.pool is not None, ghost.out == old(ghost.out) + (0 if result._connection is None else 1))", "lease-balance:response-holds-the-only-outstanding-lease")
c.exc_ensures("implies(self.pool is not None, ghost.out == old(ghost.out))", "lease-balance:no-lease-outstanding-after-an-exception")
# C01: failures surface as urllib3 exceptions, never raw socket/ssl/http.client errors
c.exc_ensures("implies(isinstance(exc, (OSError, HTTPException)), isinstance(exc, HTTPError))", "no-raw-socket-ssl-httpclient-error")
# C04: attempts on the wire are bounded by 1 + total
c.ensures("implies(isinstance(retries, Retry) and is_count(retries.total), ghost.sends <= old(ghost.sends) + 1 + retries.total)", "attempts<=1+total")
c.exc_ensures("implies(isinstance(retries, Retry) and is_count(retries.total), ghost.sends <= old(ghost.sends) + 1 + retries.total)", "attempts<=1+total")
c.ensures("ghost.sends >= old(ghost.sends)", "sends-monotone")
c.exc_ensures("ghost.sends >= old(ghost.sends)", "sends-monotone")
# C04: a method outside allowed_methods is never re-sent after the request may have reached the server
c.site_assert("HTTPConnectionPool.urlopen",
              "implies(caller_err is not None and ghost.sends > old(ghost.sends), method_retryable(retries, method))",
              "no-resend-of-non-idempotent-after-it-may-have-reached-the-server")

# C01: a slot is only put back by the call that took it (or the pool is closed and there is nothing to put)
c.site_assert("HTTPConnectionPool._put_conn",
              "ghost.out >= old(ghost.out) + 1 or self.pool is None",
              "put-only-what-was-checked-out")

c.tag("C01", "lease-balance:response-holds-the-only-outstanding-lease", "lease-balance:no-lease-outstanding-after-an-exception",
      "no-raw-socket-ssl-httpclient-error", "put-only-what-was-checked-out", "returns-response")
c.tag("C04", "attempts<=1+total", "sends-monotone", "no-resend-of-non-idempotent-after-it-may-have-reached-the-server")
# C02 "no lost slot": the same lease accounting (a slot leaked on any sequential path is lost to every thread)
c.tag("C02", "lease-balance:response-holds-the-only-outstanding-lease", "lease-balance:no-lease-outstanding-after-an-exception", "put-only-what-was-checked-out")
c.props.add("C02")

# every recursion (retry after error, redirect, status retry) carries the caller's settings on unchanged
c.site_old = {"in_redirect": "redirect", "in_assert_same_host": "assert_same_host", "in_timeout": "timeout", "in_pool_timeout": "pool_timeout",
              "in_release_conn": "release_conn", "in_chunked": "chunked", "in_preload": "preload_content", "in_decode": "decode_content"}
c.site_assert("HTTPConnectionPool.urlopen",
              "redirect is in_redirect and assert_same_host is in_assert_same_host and timeout is in_timeout and pool_timeout is in_pool_timeout"
              " and release_conn is (in_preload if in_release_conn is None else in_release_conn) and chunked is in_chunked"
              " and preload_content is in_preload and decode_content is in_decode",
              "settings-carried-through-every-recursion")
c.tag("C05", "settings-carried-through-every-recursion")
c.tag("C19", "settings-carried-through-every-recursion")
c.tag("C01", "settings-carried-through-every-recursion")
c.props.update({"C05"})

# C09: proxy headers are merged into a copy made by this call, never into the caller's / the pool's own header mapping
c.site_assert("method:update", "fresh(self)", "proxy-headers-merged-into-a-fresh-copy-only")
c.tag("C09", "proxy-headers-merged-into-a-fresh-copy-only")
c.tag("C01", "proxy-headers-merged-into-a-fresh-copy-only")
c.props.update({"C09"})

# C11: every recursion passes on the body position recorded by set_file_position for this attempt (so the next attempt rewinds)
c.site_assert("HTTPConnectionPool.urlopen", "body_pos is caller_body_pos", "recorded-body-position-carried-through-every-recursion")
c.tag("C11", "recorded-body-position-carried-through-every-recursion", "settings-carried-through-every-recursion")
c.tag("C01", "recorded-body-position-carried-through-every-recursion")
c.props.update({"C11"})
