"""Contracts for urllib3.connectionpool (C01, C03, C04, C11, C13, C19, C09) and the connection-level
dependencies they rely on (assumed contracts on the http.client / socket boundary)."""
from pyvc.dsl import contract, field

P = "urllib3.connectionpool.HTTPConnectionPool"
CONN = "urllib3.connection.HTTPConnection"
RESP = "urllib3.response.BaseHTTPResponse"
T = "urllib3.util.timeout.Timeout"

field(P, "timeout", T)
field(P, "retries", "urllib3.util.retry.Retry")
field(P, "proxy", "urllib3.util.url.Url")
field(CONN, "proxy", "urllib3.util.url.Url")
field(RESP, "retries", "urllib3.util.retry.Retry")

# ------------------------------------------------------------------ connection boundary (assumed)
c = contract(f"{CONN}.request")
c.assumed("http.client boundary: may write to the socket (ghost.phase becomes 1 = request possibly on the wire), may auto-connect, may raise anything")
c.ghost("sends").ghost("req_timeout")
c.requires("isinstance(ghost.sends, int)")
c.modifies("self.sock", "self._response_options", "self._has_connected_to_proxy", "self.is_verified", "self.proxy_is_verified", "ghost.sends", "ghost.req_timeout")
c.ensures("ghost.sends == old(ghost.sends) + 1 and ghost.req_timeout is old(self.timeout)")
c.raises("BaseException", ensures="ghost.sends == old(ghost.sends) + 1 and ghost.req_timeout is old(self.timeout)")

c = contract(f"{CONN}.getresponse")
c.assumed("http.client boundary: waits for and parses the response head with the socket timeout currently set on the connection; returns a fresh response; may raise anything; may close the connection")
c.ghost("waits")
c.requires("isinstance(ghost.waits, int)")
c.modifies("self.sock", "self._response_options", "self._has_connected_to_proxy", "ghost.waits")
c.ensures("fresh(result) and isinstance(result, BaseHTTPResponse) and ghost.waits == old(ghost.waits) + 1")
c.raises("BaseException", ensures="ghost.waits == old(ghost.waits) + 1")
c.result_hint = RESP

c = contract("urllib3.connection._wrap_proxy_error")
c.assumed("builds ProxyError('Unable to connect to proxy...', err); message text irrelevant")
c.types(err="Exception", proxy_scheme="any")
c.modifies()
c.ensures("fresh(result) and isinstance(result, ProxyError) and result.original_error is err")
c.result_hint = "urllib3.exceptions.ProxyError"

# overridable hook: HTTPConnectionPool._validate_conn is a no-op, HTTPSConnectionPool._validate_conn connects.
c = contract(f"{P}._validate_conn")
c.assumed("extension point (base: no-op; HTTPS: conn.connect() + InsecureRequestWarning): may connect the socket, may raise anything; does not touch the request phase")
c.types(conn=CONN)
c.modifies("conn.sock", "conn._has_connected_to_proxy", "conn.is_verified", "conn.proxy_is_verified")
c.ensures("True")
c.raises("BaseException")

# ------------------------------------------------------------------ C19: _get_timeout / _raise_timeout
c = contract(f"{P}._get_timeout", prop="C19")
c.types(timeout="any")
c.requires("isinstance(self.timeout, Timeout) and valid_timeout(self.timeout)")
c.requires("implies(isinstance(timeout, Timeout), valid_timeout(timeout))")
c.modifies()
c.ensures("fresh(result) and isinstance(result, Timeout) and result._start_connect is None", "fresh-clock-not-started")
c.ensures("implies(timeout is _DEFAULT_TIMEOUT, same_timeout_values(result, self.timeout))", "pool-default-when-unset")
c.ensures("implies(isinstance(timeout, Timeout), same_timeout_values(result, timeout))", "request-override-wins")
c.ensures("implies(timeout is not _DEFAULT_TIMEOUT and not isinstance(timeout, Timeout), result._connect is timeout and result._read is timeout and result.total is None)", "number-applies-to-both")
c.ensures("valid_timeout(result)", "valid")
c.raises("ValueError", when="timeout is not _DEFAULT_TIMEOUT and not isinstance(timeout, Timeout) and not valid_tv(timeout)", iff=True, name="invalid-rejected")
c.result_hint = T

c = contract(f"{P}._raise_timeout", prop="C19")
c.types(err="BaseException", url="any", timeout_value="any")
c.modifies()
c.ensures("not is_socket_timeout(err)", "returns-only-if-not-a-timeout")
c.raises("ReadTimeoutError", when="is_socket_timeout(err) or has_blocking_errno(err)", name="timeout-translated")


# ------------------------------------------------------------------ _make_request (C19 sites, C04 phase, C01 response wiring)
c = contract(f"{P}._make_request", prop="C19")
c.props.update({"C01", "C04"})
c.types(conn=CONN, method="str", url="str", body="any", headers="any", retries="opt:Retry", timeout="any", chunked="any",
        response_conn="any", preload_content="any", decode_content="any", enforce_content_length="any")
c.ghost("clock", "float").ghost("sends").ghost("waits").ghost("req_timeout")
c.requires("isinstance(self.timeout, Timeout) and valid_timeout(self.timeout) and self.timeout._start_connect is None")
c.requires("implies(isinstance(timeout, Timeout), valid_timeout(timeout))")
c.requires("isinstance(ghost.clock, float) and isinstance(ghost.sends, int) and isinstance(ghost.waits, int)")
c.requires("isinstance(self.num_requests, int)")
c.requires("conn.proxy is None or isinstance(conn.proxy, Url)")
c.requires("implies(retries is not None, valid_retry(retries))")
c.modifies("self.num_requests", "conn.timeout", "conn.sock", "conn._response_options", "conn._has_connected_to_proxy", "conn.is_verified",
           "conn.proxy_is_verified", "ghost.clock", "ghost.sends", "ghost.waits", "ghost.req_timeout")
c.raises_any = True
# the pool's own Timeout object is never written: one request's clock never influences another's (frame: self.timeout.* not in modifies)
c.ensures("fresh(result) and isinstance(result, BaseHTTPResponse)", "fresh-response")
c.ensures("result._connection is response_conn and result._pool is self and result._retries is retries", "response-wired-to-pool")
c.ensures("ghost.sends == old(ghost.sends) + 1 and ghost.waits == old(ghost.waits) + 1", "one-request-one-wait")
c.exc_ensures("ghost.sends == old(ghost.sends) or ghost.sends == old(ghost.sends) + 1", "at-most-one-request-written")
# C19 connect phase: the timeout in force while connecting/sending is min(connect, total) of the effective Timeout
c.site_assert("HTTPConnectionPool._validate_conn", "same_num(conn.timeout, expected_connect_timeout(self, caller_timeout)) or"
              " (expected_connect_timeout(self, caller_timeout) is _DEFAULT_TIMEOUT and (conn.timeout is None or conn.timeout >= 0))", "connect-timeout=min(connect,total)")
c.site_assert("HTTPConnection.request", "same_num(self.timeout, expected_connect_timeout(caller_self, caller_timeout)) or"
              " (expected_connect_timeout(caller_self, caller_timeout) is _DEFAULT_TIMEOUT and (self.timeout is None or self.timeout >= 0))", "send-timeout=min(connect,total)")
# the total-budget clock is started before anything that may spend time connecting (so 'time already spent connecting' is measured)
c.site_assert("HTTPConnectionPool._validate_conn", "isinstance(caller_timeout_obj._start_connect, float) and caller_timeout_obj._start_connect <= ghost.clock",
              "clock-started-before-connecting")
c.site_assert("HTTPConnection.request", "isinstance(caller_timeout_obj._start_connect, float) and caller_timeout_obj._start_connect <= ghost.clock",
              "clock-started-before-sending")
# C19 response wait
c.site_assert("HTTPConnection.getresponse",
              "implies(self.sock is not None, response_wait_ok(self.timeout, effective_timeout(caller_self, caller_timeout), ghost.clock - caller_timeout_obj._start_connect))",
              "response-wait=min(read,total-elapsed),never-zero")
