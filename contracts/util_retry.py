"""Contracts for urllib3.util.retry and urllib3.util.util.reraise (C04; reused by C05/C06)."""
from pyvc.dsl import contract, field

R = "urllib3.util.retry.Retry"
field(R, "history", "builtins.tuple")
field("urllib3.exceptions.ProxyError", "original_error", "builtins.Exception")

c = contract("urllib3.util.util.reraise", prop="C04")
c.types(tp="any", value="BaseException", tb="any")
c.modifies("value.__traceback__")
c.raises("BaseException", when="True", ensures="exc is value", name="same-object")
c.ensures("False", "never-returns")

c = contract(f"{R}.is_exhausted", prop="C04")
c.requires("valid_retry(self)")
c.modifies()
c.ensures("isinstance(result, bool) and result == any_negative(self)", "iff-some-counter-negative")

c = contract(f"{R}._is_connection_error", prop="C04")
c.types(err="Exception")
c.requires("implies(isinstance(err, ProxyError), isinstance(err.original_error, Exception))")
c.modifies()
c.ensures("result == is_connect_class(err)", "classification")

c = contract(f"{R}._is_read_error", prop="C04")
c.types(err="Exception")
c.modifies()
c.ensures("result == is_read_class(err)", "classification")

# --- dependency of increment(): response.get_redirect_location (verified under C05; used here at this contract)
c = contract("urllib3.response.BaseHTTPResponse.get_redirect_location")
c.assumed("deterministic function of the response object; the response is not mutated during Retry.increment")
c.modifies()
c.ensures("result is uf('redirect_location', self) and (result is None or result is False or isinstance(result, str))")

c = contract(f"{R}.__init__", prop="C04")
c.props.update({"C05", "C06"})
c.types(total="any", connect="any", read="any", redirect="any", status="any", other="any", allowed_methods="any",
        status_forcelist="any", backoff_factor="any", backoff_max="any", raise_on_redirect="any", raise_on_status="any",
        history="any", respect_retry_after_header="any", remove_headers_on_redirect="any", backoff_jitter="any")
c.requires("history is None or isinstance(history, tuple)")
c.requires("status_forcelist is None or isinstance(status_forcelist, (set, frozenset))")
c.requires("isinstance(remove_headers_on_redirect, (set, frozenset))")
FIELDS = ["total", "connect", "read", "status", "other", "redirect", "status_forcelist", "allowed_methods", "backoff_factor",
          "backoff_max", "raise_on_redirect", "raise_on_status", "history", "respect_retry_after_header",
          "remove_headers_on_redirect", "backoff_jitter"]
c.modifies(*[f"self.{f}" for f in FIELDS])
c.ensures("self.total is total and self.connect is connect and self.read is read and self.status is status and self.other is other", "counters")
c.ensures("self.redirect is (0 if (redirect is False or total is False) else redirect)", "redirect-disabled-by-False")
c.ensures("self.raise_on_redirect is (False if (redirect is False or total is False) else raise_on_redirect)", "raise-on-redirect")
c.ensures("self.allowed_methods is allowed_methods and self.backoff_factor is backoff_factor and self.backoff_max is backoff_max"
          " and self.raise_on_status is raise_on_status and self.respect_retry_after_header is respect_retry_after_header"
          " and self.backoff_jitter is backoff_jitter", "policy")
c.ensures("implies(status_forcelist, self.status_forcelist is status_forcelist) and isinstance(self.status_forcelist, (set, frozenset))"
          " and implies(not status_forcelist, not self.status_forcelist)", "forcelist")
c.ensures("implies(history, self.history is history) and isinstance(self.history, tuple) and implies(not history, len(self.history) == 0)", "history")
c.ensures("isinstance(self.remove_headers_on_redirect, frozenset) and uf('lowered_src', self.remove_headers_on_redirect) is remove_headers_on_redirect", "remove-headers=lower-cased-image-of-the-argument")

c = contract(f"{R}.increment", prop="C04")
c.props.update({"C05", "C06"})
c.types(method="opt:str", url="any", response="opt:BaseHTTPResponse", error="opt:Exception", _pool="any", _stacktrace="any")
c.requires("valid_retry(self)")
c.requires("implies(isinstance(error, ProxyError), isinstance(error.original_error, Exception))")
c.requires("implies(response is not None, isinstance(response.status, int))")
c.inline(f"{R}.new")
c.modifies("error.__traceback__")                        # the caller's Retry (and everything else) is never mutated
c.raises("BaseException", when="reraise_case(self, method, error)", ensures="exc is error", iff=True, name="reraise-original")
c.raises("MaxRetryError", when="not reraise_case(self, method, error) and exhausted_after(self, error, response)", iff=True,
         ensures="implies(error is not None, exc.reason is error) and implies(error is None, isinstance(exc.reason, ResponseError))",
         name="exhausted")
c.result_hint = R
c.ensures("fresh(result) and isinstance(result, Retry)", "fresh-copy")
c.ensures("valid_retry(result)", "invariant-kept")
c.ensures("result.total == new_total(self) and result.connect == new_connect(self, error) and result.read == new_read(self, error)"
          " and result.other == new_other(self, error)", "error-counters")
c.ensures("result.redirect == new_redirect(self, error, response) and result.status == new_status(self, error, response)", "response-counters")
c.ensures("same_policy(result, self)", "policy-carried")
c.ensures("len(result.history) == len(self.history) + 1", "history-extended")
c.ensures("not any_negative(result)", "not-exhausted")

field(R, "DEFAULT", R)
field("urllib3.response.BaseHTTPResponse", "headers", "urllib3._collections.HTTPHeaderDict")

c = contract(f"{R}._is_method_retryable", prop="C04")
c.types(method="str")
c.requires("valid_retry(self)")
c.modifies()
c.ensures("result == method_retryable(self, method)", "allowed-methods")

c = contract(f"{R}.is_retry", prop="C04")
c.types(method="str", status_code="int", has_retry_after="bool")
c.requires("valid_retry(self)")
c.modifies()
c.ensures("result == spec_is_retry(self, method, status_code, has_retry_after)", "statement")
c.ensures("implies(not method_retryable(self, method), result is False)", "non-idempotent-never-retried-on-status")

c = contract(f"{R}.from_int", prop="C04")
c.props.update({"C05"})
c.types(retries="any", redirect="any", default="any")
c.requires("retries is None or retries is False or isinstance(retries, (int, Retry))")
c.requires("default is None or default is False or isinstance(default, (int, Retry))")
c.requires("isinstance(Retry.DEFAULT, Retry) and valid_retry(Retry.DEFAULT)")
c.requires("implies(isinstance(retries, Retry), valid_retry(retries)) and implies(isinstance(default, Retry), valid_retry(default))")
c.requires("isinstance(redirect, bool)")
c.modifies()
c.result_hint = R
c.ensures("isinstance(result, Retry) and valid_retry(result)", "a-valid-Retry")
c.ensures("implies(isinstance(retries, Retry), result is retries)", "retry-object-passed-through")
c.ensures("implies(retries is None and isinstance(default, Retry), result is default)", "default-used")
c.ensures("implies(retries is None and default is None, result is Retry.DEFAULT)", "class-default")
c.ensures("implies(retries is not None and not isinstance(retries, Retry),"
          " fresh(result) and result.total is retries and result.redirect == (0 if (not redirect or retries is False) else None))", "from-int")
c.ensures("implies(retries is None and default is not None and not isinstance(default, Retry),"
          " fresh(result) and result.total is default and result.redirect == (0 if (not redirect or default is False) else None))", "from-default-int")
c.ensures("implies(fresh(result) and (result.total is False or not redirect), result.raise_on_redirect is False)", "false-disables-redirect")

c = contract(f"{R}.get_backoff_time", prop="C04")
c.requires("valid_retry(self)")
c.modifies()
c.ensures("isinstance(result, (int, float)) and result >= 0 and result <= num_max(0, self.backoff_max)", "within-[0,backoff_max]")

c = contract(f"{R}._sleep_backoff", prop="C04")
c.ghost("sleeps").ghost("last_sleep")
c.requires("valid_retry(self) and is_int(ghost.sleeps)")
c.modifies("ghost.sleeps", "ghost.last_sleep")
c.ensures("is_int(ghost.sleeps) and (ghost.sleeps is old(ghost.sleeps) or ghost.sleeps == old(ghost.sleeps) + 1)", "sleeps-typed")
c.ensures("ghost.sleeps is old(ghost.sleeps) or (ghost.sleeps == old(ghost.sleeps) + 1"
          " and isinstance(ghost.last_sleep, (int, float)) and ghost.last_sleep > 0 and ghost.last_sleep <= num_max(0, self.backoff_max))", "sleep-within-[0,backoff_max]")

c = contract(f"{R}.parse_retry_after", prop="C04")
c.types(retry_after="str")
c.modifies()
c.ensures("isinstance(result, (int, float)) and result >= 0", "non-negative")
c.raises("InvalidHeader")

# dependency: Mapping.get on the response headers (HTTPHeaderDict is verified under C16)
c = contract("collections.abc.Mapping.get").params("self", "key", "default").assumed("HTTPHeaderDict.get(name): the merged value (str) or the default; pure")
c.modifies()
c.ensures("result is default or isinstance(result, str)")

c = contract(f"{R}.get_retry_after", prop="C04")
c.types(response="BaseHTTPResponse")
c.requires("isinstance(response.headers, HTTPHeaderDict)")
c.modifies()
c.ensures("result is None or (isinstance(result, (int, float)) and result >= 0)", "none-or-non-negative")
c.raises("InvalidHeader")

c = contract(f"{R}.sleep_for_retry", prop="C04")
c.types(response="BaseHTTPResponse")
c.ghost("sleeps").ghost("last_sleep")
c.requires("isinstance(response.headers, HTTPHeaderDict) and is_int(ghost.sleeps)")
c.modifies("ghost.sleeps", "ghost.last_sleep")
c.exc_ensures("is_int(ghost.sleeps)", "sleeps-typed")
c.ensures("isinstance(result, bool) and is_int(ghost.sleeps)")
c.ensures("implies(not result, ghost.sleeps is old(ghost.sleeps))", "no-sleep")
c.ensures("implies(result, ghost.sleeps == old(ghost.sleeps) + 1 and isinstance(ghost.last_sleep, (int, float)) and ghost.last_sleep > 0)", "one-positive-sleep")
c.raises("InvalidHeader")

c = contract(f"{R}.sleep", prop="C04")
c.types(response="opt:BaseHTTPResponse")
c.ghost("sleeps").ghost("last_sleep")
c.requires("valid_retry(self) and is_int(ghost.sleeps)")
c.requires("implies(response is not None, isinstance(response.headers, HTTPHeaderDict) and isinstance(response.status, int))")
c.modifies("ghost.sleeps", "ghost.last_sleep")
c.exc_ensures("is_int(ghost.sleeps)", "sleeps-typed")
c.ensures("is_int(ghost.sleeps) and (ghost.sleeps == old(ghost.sleeps) or ghost.sleeps == old(ghost.sleeps) + 1)", "at-most-one-sleep")
c.ensures("implies(ghost.sleeps == old(ghost.sleeps) + 1, isinstance(ghost.last_sleep, (int, float)) and (ghost.last_sleep > 0 and ghost.last_sleep <= num_max(0, self.backoff_max))"
          " or (self.respect_retry_after_header and response is not None and retry_after_status(response.status) and isinstance(ghost.last_sleep, (int, float)) and ghost.last_sleep > 0))",
          "sleep-in-[0,backoff_max]-or-Retry-After-for-413/429/503")
c.raises("InvalidHeader")
