"""C18: the pool key covers every connection-affecting keyword, injectively (up to the stated normalisations)."""
from pyvc.dsl import contract, field, REG

w = REG.world
PK = "urllib3.poolmanager.PoolKey"
FIELDS = w.facts["classes"][PK]["namedtuple_fields"]            # read from the running code on every run
KEYS = [f[4:] for f in FIELDS]                                  # context keywords = field names without 'key_'
N = "urllib3.poolmanager._default_key_normalizer"

NORMALISED = {"scheme", "host", "headers", "_proxy_headers", "_socks_options", "socket_options", "blocksize"}


def key_posts(c, present):
    """field-by-field characterisation of the key: each key field is a function of its own keyword only"""
    c.ensures("isinstance(result, PoolKey)", "is-poolkey")
    for k in KEYS:
        arg = f"request_context['{k}']"
        f = f"result.key_{k}"
        if k not in present:
            if k == "blocksize":
                c.ensures(f"{f} == 16384", f"field:{k}")
            else:
                c.ensures(f"{f} is None", f"field:{k}")
        elif k in ("scheme", "host"):
            c.ensures(f"{f} == {arg}.lower()", f"field:{k}")
        elif k in ("headers", "_proxy_headers", "_socks_options"):
            c.ensures(f"{f} is (None if {arg} is None else uf('frozenset_items', {arg}))", f"field:{k}")
        elif k == "socket_options":
            c.ensures(f"{f} is (None if {arg} is None else uf('tuple_of', {arg}))", f"field:{k}")
        elif k == "blocksize":
            c.ensures(f"{f} is (16384 if {arg} is None else {arg})", f"field:{k}")
        else:
            c.ensures(f"{f} is {arg}", f"field:{k}")


for variant, present in (("all-keywords", KEYS), ("minimal", ["scheme", "host", "port"])):
    c = contract(N, prop="C18", variant=variant)
    c.types(key_class="class:PoolKey")
    c.ldict("request_context", present)
    c.requires("isinstance(request_context['scheme'], str) and isinstance(request_context['host'], str)")
    c.modifies()
    key_posts(c, set(present))

# a keyword that is not part of the key is rejected, not ignored
c = contract(N, prop="C18", variant="unknown-keyword")
c.types(key_class="class:PoolKey")
c.ldict("request_context", ["scheme", "host", "port", "zzz_not_a_pool_keyword"])
c.requires("isinstance(request_context['scheme'], str) and isinstance(request_context['host'], str)")
c.modifies()
c.ensures("False", "unknown-keyword-never-accepted")
c.raises("TypeError", name="rejected")
