"""Contracts for urllib3.util.timeout (property C19)."""
from pyvc.dsl import contract, field

T = "urllib3.util.timeout.Timeout"
field(T, "_start_connect", "$float")

c = contract(f"{T}._validate_timeout", prop="C19")
c.types(value="any", name="str")
c.modifies()
c.ensures("result is value", "identity")
c.ensures("valid_tv(value)", "accepted-only-valid")
c.raises("ValueError", when="not valid_tv(value)", iff=True, name="invalid-rejected")

c = contract(f"{T}.__init__", prop="C19")
c.types(total="any", connect="any", read="any")
c.modifies("self._connect", "self._read", "self.total", "self._start_connect")
c.ensures("self._connect is connect and self._read is read and self.total is total and self._start_connect is None", "fields")
c.ensures("valid_tv(connect) and valid_tv(read) and valid_tv(total)", "all-valid")
c.raises("ValueError", when="not (valid_tv(connect) and valid_tv(read) and valid_tv(total))", iff=True, name="invalid-rejected")

c = contract(f"{T}.from_float", prop="C19")
c.types(timeout="any")
c.modifies()
c.ensures("fresh(result) and isinstance(result, Timeout)", "fresh")
c.ensures("result._connect is timeout and result._read is timeout and result.total is None and result._start_connect is None", "fields")
c.raises("ValueError", when="not valid_tv(timeout)", iff=True, name="invalid-rejected")

c = contract(f"{T}.clone", prop="C19")
c.requires("valid_timeout(self)")
c.modifies()
c.ensures("fresh(result) and isinstance(result, Timeout)", "fresh")
c.ensures("result._connect is self._connect and result._read is self._read and result.total is self.total", "same-values")
c.ensures("result._start_connect is None", "clock-not-copied")

c = contract(f"{T}.start_connect", prop="C19")
c.ghost_l.append(("clock", "float"))
c.requires("valid_timeout(self)")
c.requires("isinstance(ghost.clock, float)")
c.modifies("self._start_connect", "ghost.clock")
c.ensures("self._start_connect is result and isinstance(result, float) and result >= old(ghost.clock) and ghost.clock is result", "started-now")
c.raises("TimeoutStateError", when="self._start_connect is not None", iff=True, name="already-started")
c.exc_ensures("self._start_connect is old(self._start_connect)", "unchanged-on-error")

c = contract(f"{T}.get_connect_duration", prop="C19")
c.ghost_l.append(("clock", "float"))
c.requires("valid_timeout(self)")
c.requires("isinstance(ghost.clock, float) and (self._start_connect is None or self._start_connect <= ghost.clock)")
c.modifies("ghost.clock")
c.ensures("isinstance(ghost.clock, float) and isinstance(result, float) and result >= 0 and result == ghost.clock - self._start_connect and ghost.clock >= old(ghost.clock)", "elapsed")
c.raises("TimeoutStateError", when="self._start_connect is None", iff=True, name="not-started")

c = contract(f"{T}.connect_timeout", prop="C19")
c.requires("valid_timeout(self)")
c.modifies()
c.ensures("implies(self.total is None, result is self._connect)", "no-total")
c.ensures("implies(self.total is not None and unset(self._connect), result is self.total)", "connect-unset")
c.ensures("implies(self.total is not None and not unset(self._connect),"
          " (result is self._connect or result is self.total) and result <= self._connect and result <= self.total)", "min")

c = contract(f"{T}.read_timeout", prop="C19")
c.ghost_l.append(("clock", "float"))
c.requires("valid_timeout(self)")
c.requires("isinstance(ghost.clock, float) and (self._start_connect is None or self._start_connect <= ghost.clock)")
c.modifies("ghost.clock")
c.ensures("isinstance(ghost.clock, float) and ghost.clock >= old(ghost.clock)", "clock-monotone")
c.ensures("implies(self.total is None, result is self._read or (self._read is _DEFAULT_TIMEOUT and (result is None or (is_num(result) and result >= 0))))", "no-total")
c.ensures("implies(self.total is not None and not unset(self._read) and self._start_connect is None, result is self._read)", "not-started")
c.ensures("implies(self.total is not None and self._start_connect is not None,"
          " is_num(result) and result >= 0 and result <= self.total and implies(not unset(self._read), result <= self._read))", "bounded")
c.ensures("implies(self.total is not None and self._start_connect is not None and not unset(self._read),"
          " result == num_max(0, num_min(self.total - (ghost.clock - self._start_connect), self._read)))", "exact")
c.ensures("implies(self.total is not None and self._start_connect is not None and unset(self._read),"
          " result == num_max(0, self.total - (ghost.clock - self._start_connect)))", "exact-read-unset")
c.raises("TimeoutStateError", when="self.total is not None and unset(self._read) and self._start_connect is None", iff=True, name="not-started")

c = contract(f"{T}.resolve_default_timeout", prop="C19")
c.types(timeout="any")
c.modifies()
c.ensures("implies(timeout is not _DEFAULT_TIMEOUT, result is timeout)", "passthrough")
c.ensures("implies(timeout is _DEFAULT_TIMEOUT, result is None or (isinstance(result, float) and result >= 0))", "default")
