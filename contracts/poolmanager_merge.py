"""C18: per-request overrides never alter the manager's own defaults; merged context content."""
from pyvc.dsl import contract, field

PM = "urllib3.poolmanager.PoolManager"
field(PM, "connection_pool_kw", "builtins.dict")

for variant, keys in (("two-override-keys", ["k1", "k2"]), ("empty-override", [])):
    c = contract(f"{PM}._merge_pool_kwargs", prop="C18", variant=variant)
    c.ldict("override", keys)
    c.ghost("anykey")
    c.requires("isinstance(self.connection_pool_kw, dict)")
    c.modifies()                     # nothing that existed before the call changes: the manager's defaults are intact
    c.ensures("fresh(result) and isinstance(result, dict)", "fresh-dict")
    for k in keys:
        c.ensures(f"implies(override['{k}'] is None, '{k}' not in result)", f"None-removes:{k}")
        c.ensures(f"implies(override['{k}'] is not None, '{k}' in result and result['{k}'] is override['{k}'])", f"override-wins:{k}")
    others = " and ".join([f"ghost.anykey != '{k}'" for k in keys] or ["True"])
    c.ensures(f"implies({others}, (ghost.anykey in result) == (ghost.anykey in self.connection_pool_kw)"
              " and implies(ghost.anykey in result, result[ghost.anykey] is self.connection_pool_kw[ghost.anykey]))", "other-keys-from-defaults")

c = contract(f"{PM}._merge_pool_kwargs", prop="C18", variant="override-None")
c.types(override="any")
c.ghost("anykey")
c.requires("override is None and isinstance(self.connection_pool_kw, dict)")
c.modifies()
c.ensures("fresh(result) and isinstance(result, dict)", "fresh-dict")
c.ensures("(ghost.anykey in result) == (ghost.anykey in self.connection_pool_kw)"
          " and implies(ghost.anykey in result, result[ghost.anykey] is self.connection_pool_kw[ghost.anykey])", "same-content")

# ---- _new_pool: what reaches the pool constructor is exactly the keyed context (minus scheme/host/port,
#      minus the SSL keywords for http) -- so the key really describes the pool that is built
from pyvc.dsl import REG
w = REG.world
KEYS = [f[4:] for f in w.facts["classes"]["urllib3.poolmanager.PoolKey"]["namedtuple_fields"]]
SSLK = [x["v"] for x in w.facts["modules"]["urllib3.poolmanager"]["globals"]["SSL_KEYWORDS"]["items"]]
field(PM, "pool_classes_by_scheme", "builtins.dict")

for scheme in ("http", "https"):
    c = contract(f"{PM}._new_pool", prop="C18", variant=f"{scheme}-all-keywords")
    c.types(scheme="str", host="any", port="any")
    c.ldict("request_context", KEYS)
    c.requires(f"scheme == '{scheme}' and isinstance(self.pool_classes_by_scheme, dict) and isinstance(self.connection_pool_kw, dict)")
    c.opaque_calls = {"pool_cls": "ctor"}
    c.raises_any = True
    conj = ["args[0] is host and args[1] is port", "'scheme' not in kwargs and 'host' not in kwargs and 'port' not in kwargs"]
    for k in KEYS:
        if k in ("scheme", "host", "port"):
            continue
        if scheme == "http" and k in SSLK:
            conj.append(f"'{k}' not in kwargs")
        elif k == "blocksize":
            conj.append(f"'blocksize' in kwargs and kwargs['blocksize'] is (16384 if old_ctx_{k} is None else old_ctx_{k})")
        else:
            conj.append(f"'{k}' in kwargs and kwargs['{k}'] is old_ctx_{k}")
    c.site_assert("name:pool_cls", " and ".join(conj), "constructor-gets-exactly-the-keyed-context")
    c.site_old = {f"old_ctx_{k}": f"request_context['{k}']" for k in KEYS}
