"""C20: the WHATWG escaping of multipart header parameters (urllib3.fields.format_multipart_header_param)."""
from pyvc.dsl import contract

c = contract("urllib3.fields.format_multipart_header_param", prop="C20")
c.types(name="str", value="str")
c.modifies()
c.ensures("isinstance(result, str)", "str")
c.ensures("result == name + '=\"' + whatwg_escape(value) + '\"'", "name=\"escaped-value\"")
# (the consequence "the quoted value contains no raw quote / CR / LF" needs reasoning about chains of replace_all, which
#  neither z3 nor cvc5 decides here; it is checked by the bounded strict parse-back)
