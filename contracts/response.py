"""Contracts for urllib3.response.HTTPResponse internals (C12 chunk arithmetic, C13 truncation, C01 response side)."""
from pyvc.dsl import contract, field

R = "urllib3.response.HTTPResponse"
FP = "http.client.HTTPResponse"
field(R, "_fp", FP)
field(R, "_original_response", FP)
field(R, "_pool", "urllib3.connectionpool.HTTPConnectionPool")
field(R, "_connection", "urllib3.connection.HTTPConnection")
field(FP, "fp", "_io.BufferedReader")

# ---------------------------------------------------------------- http.client / io boundary (assumed)
c = contract(f"{FP}._safe_read").params("self", "amt").assumed("http.client: exactly amt bytes or IncompleteRead; OSError family on socket faults")
c.ghost("consumed")
c.requires("is_int(amt) and amt >= 0")
c.modifies("ghost.consumed")
c.ensures("isinstance(result, bytes) and len(result) == amt and is_int(ghost.consumed) and ghost.consumed == old(ghost.consumed) + amt")
c.raises(["http.client.IncompleteRead", "OSError"])

c = contract("_io.BufferedReader.readline").params("self").assumed("one line incl. its newline, b'' at EOF; OSError family on socket faults")
c.modifies()
c.ensures("isinstance(result, bytes)")
c.raises(["OSError"])

c = contract(f"{FP}.close").params("self").assumed("closes the file object (fp becomes None); assumed not to raise")
c.modifies("self.fp")
c.ensures("self.fp is None")

c = contract(f"{FP}.isclosed").params("self").assumed("fp is None")
c.modifies()
c.ensures("result == (self.fp is None)")

c = contract(f"{R}.close")
c.assumed("closes the response and its connection (C01 finding D9 is about the slot, not modelled here)")
c.modifies("self._fp", "*.fp", "*.sock")
c.ensures("True")

c = contract(f"{R}._fp_read")
c.assumed("reads from http.client's response object (read/read1, split into <2 GiB pieces): bytes, at most amt when given; may raise anything the socket/http.client raise")
c.types(amt="any", read1="bool")
c.modifies("*.fp", "*.chunk_left", "*.length", "*.chunked")
c.ensures("isinstance(result, bytes) and implies(is_int(amt) and amt >= 0, len(result) <= amt)")
c.raises("BaseException")

# ---------------------------------------------------------------- C12: chunk arithmetic
c = contract(f"{R}._handle_chunk", prop="C12")
c.props.update({"C13"})
c.types(amt="opt:int")
c.ghost("consumed")
c.requires("is_int(self.chunk_left) and self.chunk_left >= 0 and isinstance(self._fp, K('http.client.HTTPResponse')) and is_int(ghost.consumed)")
c.requires("implies(amt is not None, is_int(amt) and amt >= 0)")
c.modifies("self.chunk_left", "ghost.consumed")
c.raises(["http.client.IncompleteRead", "OSError"])
c.ensures("isinstance(result, bytes) and len(result) == (old(self.chunk_left) if amt is None else num_min(amt, old(self.chunk_left)))", "returns-min(amt,chunk_left)-bytes")
c.ensures("implies(amt is not None and amt < old(self.chunk_left), self.chunk_left == old(self.chunk_left) - amt and ghost.consumed == old(ghost.consumed) + amt)", "partial:remainder-kept,no-CRLF-consumed")
c.ensures("implies(amt is None or amt >= old(self.chunk_left), self.chunk_left is None and ghost.consumed == old(ghost.consumed) + old(self.chunk_left) + 2)", "whole:chunk-and-its-CRLF-consumed")

c = contract(f"{R}._update_chunk_length", prop="C13")
c.requires("isinstance(self._fp, K('http.client.HTTPResponse')) and isinstance(self._fp.fp, K('_io.BufferedReader'))")
c.requires("self.chunk_left is None or is_int(self.chunk_left)")
c.modifies("self.chunk_left", "self._fp", "*.fp", "*.sock")
c.raises(["InvalidChunkLength", "ProtocolError", "OSError"])
c.ensures("is_int(self.chunk_left)", "chunk-length-known-on-return")
c.ensures("implies(old(self.chunk_left) is not None, self.chunk_left is old(self.chunk_left))", "kept-when-already-known")

# ---------------------------------------------------------------- C01: response side of the lease
c = contract(f"{R}.release_conn", prop="C01")
c.props.update({"C13", "C03", "C02"})
c.ghost("out")
c.requires("is_int(ghost.out)")
c.requires("self._pool is None or isinstance(self._pool, HTTPConnectionPool)")
c.requires("self._connection is None or isinstance(self._connection, HTTPConnection)")
c.modifies("self._connection", "ghost.out", "*.sock", "*.is_verified", "*.proxy_is_verified", "*._has_connected_to_proxy", "*._response_options",
           "*._tunnel_host", "*._tunnel_port", "*._tunnel_scheme")
c.ensures("implies(old(self._pool) is not None and old(self._connection) is not None, self._connection is None"
          " and implies(self._pool.pool is not None, ghost.out == old(ghost.out) - 1))", "holder-returns-its-lease-exactly-once")
c.ensures("implies(old(self._pool) is None or old(self._connection) is None, self._connection is old(self._connection) and ghost.out is old(ghost.out))", "non-holder-does-nothing")
c.ensures("implies(old(self._connection) is not None, old(self._connection).sock is None or old(self._connection).sock is old(old(self._connection).sock))", "connection-at-most-closed")

# ---------------------------------------------------------------- C13: a short or broken body is never presented as complete
c = contract(f"{R}._raw_read", prop="C13")
c.props.update({"C12", "C03"})
c.types(amt="opt:int", read1="bool")
c.ghost("out")
c.requires("is_int(ghost.out)")
c.requires("self._fp is None or isinstance(self._fp, K('http.client.HTTPResponse'))")
c.requires("self._original_response is None or isinstance(self._original_response, K('http.client.HTTPResponse'))")
c.requires("self._pool is None or isinstance(self._pool, HTTPConnectionPool)")
c.requires("self._connection is None or isinstance(self._connection, HTTPConnection)")
c.requires("(self.length_remaining is None or is_int(self.length_remaining)) and is_int(self._fp_bytes_read) and isinstance(self.enforce_content_length, bool)")
c.requires("implies(amt is not None, amt >= 0)")
c.modifies("self.length_remaining", "self._fp_bytes_read", "self._connection", "ghost.out", "*.fp", "*.chunk_left", "*.length", "*.chunked", "*.sock", "*.is_verified",
           "*.proxy_is_verified", "*._has_connected_to_proxy", "*._response_options", "*._tunnel_host", "*._tunnel_port", "*._tunnel_scheme")
c.raises_any = True
c.ensures("result is None or isinstance(result, bytes)", "bytes-or-None")
c.ensures("not (self._fp is not None and (amt is not None or read1) and amt != 0 and not result and self.enforce_content_length"
          " and old(self.length_remaining) is not None and old(self.length_remaining) != 0)",
          "end-of-stream-with-bytes-still-owed-never-returns-normally")
c.exc_ensures("implies(isinstance(exc, (OSError, K('http.client.HTTPException'))), isinstance(exc, HTTPError))", "no-raw-socket-ssl-httpclient-error")
c.exc_ensures("implies(old(self._connection) is not None, old(self._connection).sock is None)", "connection-closed-on-every-unclean-exit")
c.exc_ensures("implies(old(self._original_response) is not None, old(self._original_response).fp is None)", "original-response-closed-on-every-unclean-exit")
