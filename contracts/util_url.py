"""Contracts for urllib3.util.url (C14; reused by C10/C15)."""
from pyvc.dsl import contract, field

U = "urllib3.util.url"
for f_ in ("scheme", "auth", "host", "path", "query", "fragment"):
    field(f"{U}.Url", f_, None)

# ---- totality: parse_url returns a Url or raises LocationParseError, nothing else
c = contract(f"{U}.parse_url", prop="C14")
c.types(url="str")
c.modifies()
c.raises("LocationParseError", name="only-LocationParseError")
c.ensures("isinstance(result, Url)", "returns-Url")
c.ensures("result.port is None or (isinstance(result.port, int) and 0 <= result.port and result.port <= 65535)", "port-in-range")
c.ensures("result.scheme is None or (isinstance(result.scheme, str) and result.scheme == result.scheme.lower())", "scheme-lower-cased")
c.ensures("implies(not url, result.host is None and result.port is None and result.path is None)", "empty-url-empty-result")
c.ensures("(result.path is None or isinstance(result.path, str)) and (result.query is None or isinstance(result.query, str))"
          " and (result.host is None or isinstance(result.host, str)) and (result.auth is None or isinstance(result.auth, str))", "component-types")

c = contract(f"{U}._encode_target", prop="C14")
c.types(target="str")
c.modifies()
c.raises("LocationParseError", name="only-LocationParseError")
c.ensures("isinstance(result, str)", "returns-str")

# dependencies used at their contracts
c = contract(f"{U}._encode_invalid_chars")
c.types(component="opt:str", allowed_chars="any")
c.modifies()
c.ensures("(result is None) == (component is None)", "none-iff-none")
c.ensures("implies(component is not None, isinstance(result, str) and encoded_ok(result))", "str-out")

c = contract(f"{U}._normalize_host")
c.assumed("returns None/'' unchanged, otherwise a str; raises only LocationParseError or a UnicodeError (ValueError) from IDNA/ASCII conversion; checked by the bounded contract of parse_url")
c.types(host="opt:str", scheme="opt:str")
c.modifies()
c.ensures("implies(not host, result is host) and implies(host, isinstance(result, str))")
c.raises(["LocationParseError", "ValueError"])

c = contract(f"{U}._remove_path_dot_segments")
c.types(path="str")
c.modifies()
c.ensures("isinstance(result, str)")
