"""C10: HTTP/2 header name / value validity (urllib3.http2.connection)."""
from pyvc.dsl import contract

H = "urllib3.http2.connection"

c = contract(f"{H}._is_legal_header_name", prop="C10")
c.types(name="bytes")
c.modifies()
c.ensures("isinstance(result, bool)", "bool")
c.ensures(r"result == matches(rb'[!#$%&\'*+\-.^_`|~0-9a-z]+', name)", "exactly-lowercase-token")
c.ensures(r"implies(result, not matches(rb'(?s).*[\x00-\x20:\x7f-\xff\"(),/;<=>?@\[\\\]{}A-Z].*', name))", "no-CTL-SP-colon-uppercase-or-separator")

c = contract(f"{H}._is_illegal_header_value", prop="C10")
c.types(value="bytes")
c.modifies()
c.ensures("isinstance(result, bool)", "bool")
c.ensures(r"result == (matches(rb'(?s).*[\x00\n\r].*', value) or matches(rb'(?s)[ \t].*', value) or matches(rb'(?s).*[ \t]', value))",
          "illegal-iff-NUL-CR-LF-anywhere-or-leading/trailing-SP-HT")
