"""C17: urllib3._collections.RecentlyUsedContainer - the bounded map under the PoolManager's pool cache.
The OrderedDict is the engine's dict abstraction (membership / value / size arrays) plus the most recently inserted key;
popitem(last=False) returns some present key that is not that one when there are two or more entries (full LRU order
is not modelled: "evicts the LEAST recently used" stays with the bounded check).  The dispose callback is a duck-typed
callable used at an assumed contract that counts invocations (ghost.disposed) and remembers the value (ghost.last_disposed).
ghost.probe is an arbitrary key: clauses about it hold for every key (frame of the other entries)."""
from pyvc.dsl import contract, field

RUC = "urllib3._collections.RecentlyUsedContainer"
field(RUC, "_container", "collections.OrderedDict")
field(RUC, "lock", "_thread.RLock")
field(RUC, "dispose_func", "builtins.object")        # a callable or None

c = contract("duck.dispose").params("value").assumed("the dispose callback (PoolManager: pool.close): invoked with the value; counted; may raise anything")
c.ghost("disposed").ghost("last_disposed")
c.requires("is_int(ghost.disposed)")
c.modifies("ghost.disposed", "ghost.last_disposed")
c.ensures("is_int(ghost.disposed) and ghost.disposed == old(ghost.disposed) + 1 and ghost.last_disposed is value")
c.raises("BaseException", ensures="is_int(ghost.disposed) and ghost.disposed == old(ghost.disposed) + 1 and ghost.last_disposed is value")

INV = "isinstance(self._container, K('collections.OrderedDict')) and is_int(self._maxsize) and is_int(ghost.disposed) and len(self._container) >= 0"
CALLS = 1


def common(c):
    c.types(key="any", value="any")
    c.ghost("disposed").ghost("last_disposed").ghost("probe")
    c.opaque_calls = {".dispose_func": "contract:duck.dispose"}
    c.requires(INV)
    c.modifies("ghost.disposed", "ghost.last_disposed", "self._container.$has", "self._container.$map", "self._container.$len", "self._container.$newest")


D1 = "(1 if self.dispose_func else 0)"

# ------------------------------------------------------------------------------------------------ __setitem__
c = contract(f"{RUC}.__setitem__", prop="C17")
common(c)
c.ensures("implies(old(len(self._container)) <= self._maxsize, len(self._container) <= self._maxsize)", "bounded:never-more-than-maxsize-entries")
c.ensures(f"implies(old(key in self._container), key in self._container and self._container[key] is value and len(self._container) == old(len(self._container))"
          f" and ghost.disposed == old(ghost.disposed) + {D1} and implies(bool(self.dispose_func), ghost.last_disposed is old(self._container[key])))",
          "replace:the-old-value-is-disposed-exactly-once-and-the-size-is-unchanged")
c.ensures("implies(not old(key in self._container) and old(len(self._container)) < self._maxsize, key in self._container and self._container[key] is value"
          " and len(self._container) == old(len(self._container)) + 1 and ghost.disposed == old(ghost.disposed))", "insert-with-room:nothing-evicted-nothing-disposed")
c.ensures(f"implies(not old(key in self._container) and old(len(self._container)) >= self._maxsize, len(self._container) == old(len(self._container))"
          f" and ghost.disposed == old(ghost.disposed) + {D1})", "insert-when-full:exactly-one-entry-evicted-and-disposed-once")
c.ensures("implies(not old(key in self._container) and old(len(self._container)) >= 1, key in self._container and self._container[key] is value)",
          "insert:the-new-entry-is-never-the-one-evicted-when-another-exists")
c.ensures("implies(ghost.probe != key and old(ghost.probe in self._container) and (old(key in self._container) or old(len(self._container)) < self._maxsize),"
          " ghost.probe in self._container and self._container[ghost.probe] is old(self._container[ghost.probe]))", "other-entries-untouched-unless-one-is-evicted")
c.ensures("implies(ghost.probe != key and not old(ghost.probe in self._container), ghost.probe not in self._container)", "no-entry-appears-except-the-one-set")
c.raises("BaseException", ensures="ghost.disposed == old(ghost.disposed) + 1", name="only-the-dispose-callback-can-fail-after-the-map-was-updated")
c.exc_ensures("implies(old(len(self._container)) <= self._maxsize, len(self._container) <= self._maxsize)", "bounded-even-when-dispose-fails")

# ------------------------------------------------------------------------------------------------ __getitem__
c = contract(f"{RUC}.__getitem__", prop="C17")
common(c)
c.ensures("old(key in self._container) and result is old(self._container[key]) and key in self._container and self._container[key] is result", "returns-the-stored-value-and-keeps-it")
c.ensures("len(self._container) == old(len(self._container)) and ghost.disposed == old(ghost.disposed)", "a-lookup-evicts-and-disposes-nothing")
c.ensures("implies(ghost.probe != key, (ghost.probe in self._container) == old(ghost.probe in self._container)"
          " and implies(ghost.probe in self._container, self._container[ghost.probe] is old(self._container[ghost.probe])))", "other-entries-untouched")
c.raises("KeyError", when="key not in self._container", iff=True, ensures="ghost.disposed == old(ghost.disposed) and len(self._container) == old(len(self._container))")

# ------------------------------------------------------------------------------------------------ __delitem__
c = contract(f"{RUC}.__delitem__", prop="C17")
common(c)
c.ensures(f"old(key in self._container) and key not in self._container and len(self._container) == old(len(self._container)) - 1 and ghost.disposed == old(ghost.disposed) + {D1}"
          " and implies(bool(self.dispose_func), ghost.last_disposed is old(self._container[key]))", "delete:removed-and-disposed-exactly-once")
c.ensures("implies(ghost.probe != key, (ghost.probe in self._container) == old(ghost.probe in self._container))", "other-entries-untouched")
c.raises("KeyError", when="key not in self._container", iff=False, ensures="ghost.disposed == old(ghost.disposed) and len(self._container) == old(len(self._container))")
c.raises("BaseException", ensures="ghost.disposed == old(ghost.disposed) + 1 or (ghost.disposed == old(ghost.disposed) and len(self._container) == old(len(self._container)))",
         name="a-failing-dispose-happens-after-the-removal")

# ------------------------------------------------------------------------------------------------ __len__
c = contract(f"{RUC}.__len__", prop="C17")
c.ghost("disposed")
c.requires(INV)
c.modifies()
c.ensures("result == len(self._container)")

# ------------------------------------------------------------------------------------------------ clear
c = contract(f"{RUC}.clear", prop="C17")
c.ghost("disposed").ghost("last_disposed")
c.opaque_calls = {".dispose_func": "contract:duck.dispose"}
c.requires(INV)
c.modifies("ghost.disposed", "ghost.last_disposed", "self._container.$has", "self._container.$map", "self._container.$len", "self._container.$newest")
c.ensures("len(self._container) == 0", "emptied")
c.ensures("ghost.disposed == old(ghost.disposed) + (old(len(self._container)) if self.dispose_func else 0)", "every-value-disposed-exactly-once")
c.invariant(1, "is_int(ghost.disposed) and ghost.disposed == old(ghost.disposed) + _i and len(self._container) == 0", "one-dispose-per-value-so-far", modifies_ghost=["disposed", "last_disposed"])
c.raises("BaseException", ensures="len(self._container) == 0", name="a-failing-dispose-leaves-the-map-empty")
