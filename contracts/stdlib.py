"""Assumed contracts on dependencies (DESIGN §4.1). Never proved; every use is listed in the evidence."""
from pyvc.dsl import contract

c = contract("time.sleep").params("secs").assumed("sleeps; raises ValueError for negative values (precondition secs >= 0)")
c.ghost("sleeps").ghost("last_sleep")
c.requires("isinstance(secs, (int, float)) and secs >= 0", "non-negative")
c.modifies("ghost.sleeps", "ghost.last_sleep")
c.ensures("is_int(ghost.sleeps) and ghost.sleeps == old(ghost.sleeps) + 1 and ghost.last_sleep is secs")

c = contract("time.time").params().assumed("wall clock")
c.modifies()
c.ensures("isinstance(result, float)")

c = contract("email.utils.parsedate_tz").params("data").assumed("RFC 2822 date parser: a 10-tuple or None")
c.modifies()
c.ensures("result is None or isinstance(result, tuple)")

c = contract("email.utils.mktime_tz").params("data").assumed("timestamp of a parsed date: a number")
c.modifies()
c.ensures("isinstance(result, (int, float)) and not isinstance(result, bool)")
