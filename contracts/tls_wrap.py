"""C07: urllib3.connection._ssl_wrap_socket_and_match_hostname - the one place that decides which checks a TLS peer must
pass before the socket is handed back for the request to be written.  The handshake (ssl_wrap_socket), the certificate
accessors and the two matchers are ASSUMED contracts over ghost oracles describing the peer:

  ghost.chain_ok            the peer's chain validates against the configured CAs
  ghost.fp_ok               the peer certificate's digest equals the pinned fingerprint
  uf('name_ok', name)       the peer certificate is valid for `name` (RFC 6125 matching; C08 proves the matcher)
  ghost.sni                 the server_hostname the handshake was given
  ghost.closed              number of close() calls on the wrapped socket

Assumed OpenSSL contract (the same one the bounded lattice simulates): the handshake fails with SSLError iff
(verify_mode != CERT_NONE and not chain_ok) or (check_hostname and not name_ok(server_hostname)).
SSLContext attribute assignment is modelled as a plain field write (the real setters additionally raise ValueError for
verify_mode=CERT_NONE while check_hostname is on - an extra failure, never an extra success)."""
from pyvc.dsl import contract, field, plain_field

M = "urllib3.connection"
CTX = "ssl.SSLContext"

plain_field(CTX, "verify_mode", "check_hostname", "hostname_checks_common_name")

c = contract("urllib3.util.ssl_.resolve_cert_reqs")
c.assumed("None -> CERT_REQUIRED (2), an int -> itself, a name -> the ssl constant (a deterministic function of the argument)")
c.types(candidate="any")
c.modifies()
c.ensures("is_int(result) and result is uf('resolve_reqs', candidate)")
c.ensures("implies(candidate is None, result == 2)")
c.ensures("implies(is_int(candidate), result == candidate)")
c.raises("AttributeError", when="isinstance(candidate, str)", iff=False)

c = contract("urllib3.util.ssl_.resolve_ssl_version")
c.assumed("like resolve_cert_reqs")
c.types(candidate="any")
c.modifies()
c.ensures("True")
c.raises("AttributeError", when="isinstance(candidate, str)", iff=False)

c = contract("urllib3.util.ssl_.create_urllib3_context")
c.assumed("a fresh context whose last block sets verify_mode = cert_reqs and check_hostname = (cert_reqs == CERT_REQUIRED and not IS_PYOPENSSL); may raise")
c.types(ssl_version="any", cert_reqs="any", options="any", ciphers="any", ssl_minimum_version="any", ssl_maximum_version="any")
c.modifies()
c.allocates = True
c.ensures("fresh(result) and isinstance(result, K('ssl.SSLContext')) and result.verify_mode is (2 if cert_reqs is None else cert_reqs)"
          " and result.check_hostname is ((2 if cert_reqs is None else cert_reqs) == 2 and not K('urllib3.util.ssl_.IS_PYOPENSSL'))")
c.raises("Exception")
c.result_hint = CTX

c = contract("ssl.SSLContext.load_default_certs").params("self", "purpose").assumed("loads the OS trust store into the context (part of what 'configured CAs' means for ghost.chain_ok)")
c.modifies()
c.ensures("True")
c.raises("Exception")

c = contract("urllib3.util.url.is_ipaddress") if False else contract("urllib3.util.ssl_.is_ipaddress")
c.assumed("pure predicate (regex on the text)")
c.types(hostname="any")
c.modifies()
c.ensures("isinstance(result, bool) and result is uf('is_ip', hostname)")

c = contract("urllib3.util.ssl_.ssl_wrap_socket")
c.assumed("THE HANDSHAKE (assumed OpenSSL contract): fails with SSLError iff (verify_mode != CERT_NONE and not chain_ok) or (check_hostname and not name_ok(server_hostname)); "
          "records the SNI name; returns a fresh socket; may also fail for any other reason")
c.types(sock="any", keyfile="any", certfile="any", cert_reqs="any", ca_certs="any", server_hostname="any", ssl_version="any", ciphers="any", ssl_context="any",
        ca_cert_dir="any", key_password="any", ca_cert_data="any", tls_in_tls="any")
c.ghost("chain_ok").ghost("sni").ghost("closed").ghost("wrapped")
c.requires("is_int(ghost.wrapped)")
c.modifies("ghost.sni", "ghost.wrapped")
c.allocates = True
c.ensures("fresh(result) and isinstance(result, K('ssl.SSLSocket')) and ghost.sni is server_hostname and is_int(ghost.wrapped) and ghost.wrapped == old(ghost.wrapped) + 1")
c.ensures("implies(ssl_context.verify_mode != 0, ghost.chain_ok is True)")
c.ensures("implies(ssl_context.check_hostname is True, uf('name_ok', server_hostname) is True)")
c.raises("BaseException", ensures="ghost.wrapped is old(ghost.wrapped)")
c.result_hint = "ssl.SSLSocket"

c = contract("ssl.SSLSocket.getpeercert").params("self", "binary_form").assumed("the peer certificate (dict or DER bytes); may fail or be interrupted")
c.modifies()
c.ensures("True")
c.raises("BaseException")

c = contract("socket.socket.close").params("self").assumed("closes the TLS socket; counted in ghost.closed; assumed not to raise")
c.ghost("closed")
c.requires("is_int(ghost.closed)")
c.modifies("ghost.closed")
c.ensures("is_int(ghost.closed) and ghost.closed == old(ghost.closed) + 1")

c = contract("urllib3.util.ssl_.assert_fingerprint")
c.assumed("returns only if the certificate digest equals the pinned fingerprint (ghost.fp_ok); SSLError otherwise (also for a malformed pin)")
c.types(cert="any", fingerprint="any")
c.ghost("fp_ok")
c.modifies()
c.ensures("ghost.fp_ok is True")
c.raises("SSLError")

c = contract(f"{M}._match_hostname")
c.assumed("urllib3's own hostname check (match_hostname, proved under C08): returns only if the certificate is valid for the asserted name; CertificateError otherwise")
c.types(cert="any", asserted_hostname="any", hostname_checks_common_name="any")
c.modifies()
c.ensures("uf('name_ok', asserted_hostname) is True")
c.raises("CertificateError")

# ------------------------------------------------------------------------------------------------ the function under proof
c = contract(f"{M}._ssl_wrap_socket_and_match_hostname", prop="C07")
c.types(sock="any", cert_reqs="any", ssl_version="any", ssl_minimum_version="any", ssl_maximum_version="any", cert_file="any", key_file="any", key_password="any",
        ca_certs="any", ca_cert_dir="any", ca_cert_data="any", assert_hostname="any", assert_fingerprint="opt:str", server_hostname="str", ssl_context="opt:ssl.SSLContext", tls_in_tls="bool")
c.symbolic_globals = {"urllib3.util.ssl_.IS_PYOPENSSL", "urllib3.util.ssl_.HAS_NEVER_CHECK_COMMON_NAME"}      # proved for both TLS backends / both OpenSSL generations
for g in ("chain_ok", "fp_ok", "sni", "closed", "wrapped"):
    c.ghost(g)
c.requires("cert_reqs is None or isinstance(cert_reqs, str) or is_int(cert_reqs)")
c.requires("assert_hostname is None or assert_hostname is False or isinstance(assert_hostname, str)")
c.requires("is_int(ghost.closed) and is_int(ghost.wrapped)")
c.requires("implies(ssl_context is not None, isinstance(ssl_context.check_hostname, bool) and is_int(ssl_context.verify_mode))")
c.modifies("ghost.sni", "ghost.closed", "ghost.wrapped", "ssl_context.verify_mode", "ssl_context.check_hostname")
REQS = "uf('resolve_reqs', cert_reqs)"
c.ensures("implies(bool(assert_fingerprint), ghost.fp_ok is True)", "a-pinned-fingerprint-was-matched")
c.ensures(f"implies(not assert_fingerprint and {REQS} != 0, ghost.chain_ok is True)", "chain-validated-unless-CERT_NONE-or-pinned")
c.ensures(f"implies(not assert_fingerprint and {REQS} != 0 and assert_hostname is not False, uf('name_ok', assert_hostname if assert_hostname else ghost.sni) is True)",
          "hostname-matched-unless-disabled-or-CERT_NONE-or-pinned")
c.ensures("ghost.sni == server_hostname or (uf('is_ip', ghost.sni) is True and len(ghost.sni) <= len(server_hostname))", "the-name-given-to-the-handshake-is-the-requested-host-or-its-bare-IP-form")
c.ensures(f"result.is_verified is ({REQS} == 2 or bool(assert_fingerprint))", "reported-verified-only-with-CERT_REQUIRED-or-a-pin")
c.ensures("ghost.closed == old(ghost.closed) and isinstance(result.socket, K('ssl.SSLSocket'))", "a-returned-socket-is-open")
c.raises("BaseException")
c.exc_ensures("implies(ghost.wrapped == old(ghost.wrapped) + 1, ghost.closed == old(ghost.closed) + 1)", "a-failure-after-the-handshake-closes-the-socket")

# ------------------------------------------------------------------------------------------------ HTTPSConnection.connect
HS = "urllib3.connection.HTTPSConnection"
field(HS, "ssl_context", CTX)
field(HS, "proxy", "urllib3.util.url.Url")

c = contract("urllib3.http2.probe._HTTP2ProbeCache.acquire_and_get").assumed("HTTP/2 probe cache: True / False / None (this thread probes)")
c.types(host="any", port="any")
c.modifies()
c.ensures("result is None or isinstance(result, bool)")
c = contract("urllib3.http2.probe._HTTP2ProbeCache.set_and_release").assumed("HTTP/2 probe cache: records the probe result; assumed not to raise")
c.types(host="any", port="any", supports_http2="any")
c.modifies()
c.ensures("True")

c = contract("urllib3.connection.HTTPConnection._new_conn").assumed("opens the TCP connection (a plain socket); may raise")
c.modifies()
c.allocates = True
c.ensures("fresh(result) and isinstance(result, K('socket.socket'))")
c.raises("BaseException")
c.result_hint = "socket.socket"

c = contract(f"{HS}._connect_tls_proxy").assumed("TLS to the proxy itself (through the same _ssl_wrap_socket_and_match_hostname, with the proxy's settings); sets proxy_is_verified; may raise")
c.types(hostname="any", sock="any")
c.modifies("self.proxy_is_verified")
c.allocates = True
c.ensures("fresh(result) and isinstance(result, K('ssl.SSLSocket')) and isinstance(self.proxy_is_verified, bool)")
c.raises("BaseException")
c.result_hint = "ssl.SSLSocket"

c = contract("http.client.HTTPConnection._tunnel").params("self").assumed("CONNECT exchange with the proxy on the current socket; may raise")
c.modifies()
c.ensures("True")
c.raises("BaseException")

c = contract("datetime.date.today").params().assumed("today's date")
c.modifies()
c.ensures("True")
c.result_hint = "datetime.date"

c = contract("ssl.SSLSocket.selected_alpn_protocol").params("self").assumed("negotiated ALPN protocol or None")
c.modifies()
c.ensures("result is None or isinstance(result, str)")

c = contract("threading.get_ident").params().assumed("thread id")
c.modifies()
c.ensures("is_int(result)")

c = contract("warnings.warn").params("message", "category", "stacklevel").assumed("records a warning (ghost.warned counts InsecureRequestWarning); raises the warning as an exception when the filter says 'error'")
c.ghost("warned")
c.requires("is_int(ghost.warned)")
c.modifies("ghost.warned")
c.ensures("is_int(ghost.warned) and ghost.warned == old(ghost.warned) + (1 if category is K('urllib3.exceptions.InsecureRequestWarning') else 0)")
c.raises("Warning", ensures="is_int(ghost.warned) and ghost.warned == old(ghost.warned) + (1 if category is K('urllib3.exceptions.InsecureRequestWarning') else 0)")

c = contract(f"{HS}.connect", prop="C07")
for g in ("chain_ok", "fp_ok", "sni", "closed", "wrapped", "warned"):
    c.ghost(g)
c.requires("is_int(ghost.closed) and is_int(ghost.wrapped) and is_int(ghost.warned)")
c.requires("isinstance(self._dns_host, str) and (self.server_hostname is None or isinstance(self.server_hostname, str)) and (self._tunnel_host is None or isinstance(self._tunnel_host, str))")
c.requires("self._connect_callback is None")
c.requires("self.cert_reqs is None or isinstance(self.cert_reqs, str) or is_int(self.cert_reqs)")
c.requires("self.assert_hostname is None or self.assert_hostname is False or isinstance(self.assert_hostname, str)")
c.requires("self.assert_fingerprint is None or isinstance(self.assert_fingerprint, str)")
c.requires("implies(self.ssl_context is not None, isinstance(self.ssl_context.check_hostname, bool) and is_int(self.ssl_context.verify_mode))")
c.modifies("self.sock", "self.is_verified", "self.proxy_is_verified", "self._has_connected_to_proxy", "ghost.sni", "ghost.closed", "ghost.wrapped", "ghost.warned", "*.verify_mode", "*.check_hostname")
c.site_assert("_ssl_wrap_socket_and_match_hostname",
              "cert_reqs is caller_self.cert_reqs and assert_hostname is caller_self.assert_hostname and assert_fingerprint is caller_self.assert_fingerprint and ssl_context is caller_self.ssl_context"
              " and ca_certs is caller_self.ca_certs and ca_cert_dir is caller_self.ca_cert_dir and ca_cert_data is caller_self.ca_cert_data",
              "the-connection's-verification-settings-reach-the-decision-unchanged")
c.site_assert("_ssl_wrap_socket_and_match_hostname",
              "server_hostname == (caller_self.server_hostname if caller_self.server_hostname is not None else (caller_self._tunnel_host if caller_self._tunnel_host is not None else caller_self.host)).rstrip('.')",
              "the-name-checked-is-the-override-else-the-tunnel-target-else-the-host-without-trailing-dots")
c.ensures("self.is_verified is False or (self.is_verified is True and (uf('resolve_reqs', self.cert_reqs) == 2 or bool(self.assert_fingerprint)) and not (bool(self.proxy) and self._tunnel_host is None))",
          "reported-verified-only-with-CERT_REQUIRED-or-a-pin-and-never-through-a-forwarding-proxy")
c.ensures("self.sock is not None", "connected")
c.ensures("is_int(ghost.warned) and ghost.warned == old(ghost.warned)", "connect-itself-issues-no-InsecureRequestWarning")
c.raises("BaseException")

# ------------------------------------------------------------------------------------------------ HTTPSConnectionPool._validate_conn
HP = "urllib3.connectionpool.HTTPSConnectionPool"
c = contract(f"{HS}.connect")          # used at its contract above by _validate_conn

c = contract(f"{HP}._validate_conn", prop="C07", variant="warning")
c.types(conn=HS)
for g in ("chain_ok", "fp_ok", "sni", "closed", "wrapped", "warned"):
    c.ghost(g)
c.requires("is_int(ghost.closed) and is_int(ghost.wrapped) and is_int(ghost.warned)")
c.requires("isinstance(conn._dns_host, str) and (conn.server_hostname is None or isinstance(conn.server_hostname, str)) and (conn._tunnel_host is None or isinstance(conn._tunnel_host, str))")
c.requires("conn._connect_callback is None")
c.requires("conn.cert_reqs is None or isinstance(conn.cert_reqs, str) or is_int(conn.cert_reqs)")
c.requires("conn.assert_hostname is None or conn.assert_hostname is False or isinstance(conn.assert_hostname, str)")
c.requires("conn.assert_fingerprint is None or isinstance(conn.assert_fingerprint, str)")
c.requires("implies(conn.ssl_context is not None, isinstance(conn.ssl_context.check_hostname, bool) and is_int(conn.ssl_context.verify_mode))")
c.modifies("conn.sock", "conn.is_verified", "conn.proxy_is_verified", "conn._has_connected_to_proxy", "ghost.sni", "ghost.closed", "ghost.wrapped", "ghost.warned", "*.verify_mode", "*.check_hostname")
c.ensures("conn.sock is not None", "the-handshake-is-forced-before-the-request")
c.ensures("implies(not conn.is_verified and not conn.proxy_is_verified, ghost.warned == old(ghost.warned) + 1)", "an-unverified-connection-always-triggers-InsecureRequestWarning")
c.ensures("implies(conn.is_verified is True and old(conn.sock) is None, (uf('resolve_reqs', conn.cert_reqs) == 2 or bool(conn.assert_fingerprint)))",
          "a-connection-established-here-is-reported-verified-only-with-CERT_REQUIRED-or-a-pin")
c.raises("BaseException")
