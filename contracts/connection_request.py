"""C11 (framing decision table) / C10 (method validation): the real bodies of urllib3.connection.HTTPConnection.request,
putrequest and putheader against ghost wire events.  http.client's putrequest / putheader / endheaders / send are the
assumed boundary: each records what it was given in ghost counters and may raise anything.

ghost te_put / cl_put : number of Transfer-Encoding / Content-Length header lines handed to http.client (any spelling)
ghost cl_value        : the value of the last Content-Length line
ghost n_sent / last_sent : calls of send() after endheaders and the data of the last one
ghost reqlines / ends : putrequest / endheaders calls
"""
from pyvc.dsl import contract, field

CONN = "urllib3.connection.HTTPConnection"
HC = "http.client.HTTPConnection"
GH = ("te_put", "cl_put", "cl_value", "n_sent", "last_sent", "reqlines", "ends", "loop_n_sent", "hdr_lines", "ua_put", "skip_host", "skip_ae")

c = contract(f"{HC}.putrequest").params("self", "method", "url", "skip_host", "skip_accept_encoding")
c.assumed("http.client: buffers the request line (validates the target), records it; may raise anything; writes nothing")
c.ghost("reqlines").ghost("req_method").ghost("skip_host").ghost("skip_ae")
c.requires("is_int(ghost.reqlines)")
c.modifies("ghost.reqlines", "ghost.req_method", "ghost.skip_host", "ghost.skip_ae")
c.ensures("is_int(ghost.reqlines) and ghost.reqlines == old(ghost.reqlines) + 1 and ghost.req_method is method and ghost.skip_host is skip_host and ghost.skip_ae is skip_accept_encoding")
c.raises("BaseException", ensures="ghost.reqlines is old(ghost.reqlines)")

c = contract(f"{HC}.putheader").params("self", "header", "value")
c.assumed("http.client: buffers one header line (validates name and value); ghost counters record framing headers by lower-cased name; may raise anything (then nothing was buffered)")
c.ghost("te_put").ghost("cl_put").ghost("cl_value").ghost("hdr_lines").ghost("ua_put")
c.requires("is_int(ghost.te_put) and is_int(ghost.cl_put) and is_int(ghost.hdr_lines) and is_int(ghost.ua_put)")
c.modifies("ghost.te_put", "ghost.cl_put", "ghost.cl_value", "ghost.hdr_lines", "ghost.ua_put")
c.ensures("is_int(ghost.hdr_lines) and ghost.hdr_lines == old(ghost.hdr_lines) + 1")
c.ensures("is_int(ghost.ua_put) and ghost.ua_put == old(ghost.ua_put) + (1 if (isinstance(header, str) and header.lower() == 'user-agent') else 0)")
c.ensures("is_int(ghost.te_put) and ghost.te_put == old(ghost.te_put) + (1 if (isinstance(header, str) and header.lower() == 'transfer-encoding') else 0)")
c.ensures("is_int(ghost.cl_put) and ghost.cl_put == old(ghost.cl_put) + (1 if (isinstance(header, str) and header.lower() == 'content-length') else 0)")
c.ensures("ghost.cl_value is (value if (isinstance(header, str) and header.lower() == 'content-length') else old(ghost.cl_value))")
c.raises("BaseException", ensures="ghost.te_put is old(ghost.te_put) and ghost.cl_put is old(ghost.cl_put) and ghost.cl_value is old(ghost.cl_value) and ghost.hdr_lines is old(ghost.hdr_lines) and ghost.ua_put is old(ghost.ua_put)")

c = contract(f"{HC}.endheaders").params("self", "message_body", "encode_chunked")
c.assumed("http.client: writes the buffered head to the socket (auto-connects); may raise anything")
c.ghost("ends")
c.requires("is_int(ghost.ends)")
c.modifies("ghost.ends", "self.sock")
c.ensures("is_int(ghost.ends) and ghost.ends == old(ghost.ends) + 1")
c.raises("BaseException")

c = contract(f"{HC}.send").params("self", "data")
c.assumed("http.client: writes data to the socket; may raise anything")
c.ghost("n_sent").ghost("last_sent")
c.requires("is_int(ghost.n_sent)")
c.modifies("ghost.n_sent", "ghost.last_sent", "self.sock")
c.ensures("is_int(ghost.n_sent) and ghost.n_sent == old(ghost.n_sent) + 1 and ghost.last_sent is data")
c.raises("BaseException")

field(CONN, "sock", "socket.socket")
c = contract("_socket.socket.settimeout").params("self", "value").assumed("sets the socket timeout; may raise OSError / ValueError")
c.modifies()
c.ensures("result is None")
c.raises("Exception")


# ------------------------------------------------------------------------------------------------ request
c = contract(f"{CONN}.request", prop="C11", variant="framing")
c.types(method="str", url="str", body="any", headers="opt:dict", chunked="bool", preload_content="bool", decode_content="bool", enforce_content_length="bool")
for g in GH:
    c.ghost(g)
c.requires("is_int(ghost.te_put) and is_int(ghost.cl_put) and is_int(ghost.n_sent) and is_int(ghost.reqlines) and is_int(ghost.ends) and is_int(ghost.hdr_lines) and is_int(ghost.ua_put)")
c.duck_attrs = {"read"}
c.requires("is_int(self.blocksize)")
c.modifies("self._response_options", "self.sock", *["ghost." + g for g in GH], "ghost.req_method")
NOFRAMING = "old(not has_lower_key(headers, 'content-length') and not has_lower_key(headers, 'transfer-encoding'))"
GETLIKE = "('GET', 'HEAD', 'DELETE', 'TRACE', 'OPTIONS', 'CONNECT')"
TERM = "b'0\\r\\n\\r\\n'"
BASE = "(old(ghost.n_sent) if body is None else ghost.loop_n_sent)"
c.str_key_mappings = {"headers"}
c.notes.append("ASSUMED: the caller's header names are str (the annotated type Mapping[str, str]); bytes header names are outside the framing proof")
c.ensures("ghost.reqlines == old(ghost.reqlines) + 1 and ghost.ends == old(ghost.ends) + 1", "one-request-line-one-head")
c.ensures(f"implies({NOFRAMING} and (body is not None or chunked), ghost.te_put + ghost.cl_put == old(ghost.te_put) + old(ghost.cl_put) + 1)",
          "no-caller-framing:exactly-one-of-Content-Length-or-chunked")
c.ensures(f"implies({NOFRAMING} and body is None and not chunked, ghost.te_put == old(ghost.te_put) and ghost.cl_put == old(ghost.cl_put) + (0 if method.upper() in {GETLIKE} else 1))",
          "body-less:GET-like-unframed-else-one-Content-Length")
c.ensures(f"implies({NOFRAMING} and body is None and not chunked and method.upper() not in {GETLIKE}, ghost.cl_value == '0')", "body-less:Content-Length-0")
c.ensures(f"implies({NOFRAMING} and chunked, ghost.te_put == old(ghost.te_put) + 1 and ghost.cl_put == old(ghost.cl_put))", "chunked-requested:Transfer-Encoding-only")
c.ensures(f"implies({NOFRAMING} and not chunked and isinstance(body, bytes), ghost.cl_put == old(ghost.cl_put) + 1 and ghost.te_put == old(ghost.te_put) and ghost.cl_value == str(len(body)))",
          "bytes:Content-Length-is-the-body-length")
c.ensures(f"implies({NOFRAMING} and not chunked and isinstance(body, str), ghost.cl_put == old(ghost.cl_put) + 1 and ghost.te_put == old(ghost.te_put) and ghost.cl_value == str(len(body.encode('utf-8'))))",
          "str:Content-Length-is-the-UTF-8-length")
c.ensures(f"implies({NOFRAMING} and not chunked and body is not None and not isinstance(body, (str, bytes)) and hasattr(body, 'read'), ghost.te_put == old(ghost.te_put) + 1 and ghost.cl_put == old(ghost.cl_put))",
          "file-like:chunked")
c.ensures(f"implies({NOFRAMING}, ghost.n_sent == {BASE} + (1 if ghost.te_put == old(ghost.te_put) + 1 else 0))", "terminating-chunk-iff-chunked-framing")
c.ensures(f"implies({NOFRAMING} and ghost.te_put == old(ghost.te_put) + 1, ghost.last_sent == {TERM})", "chunked:the-last-thing-sent-is-the-terminating-chunk")
c.ensures(f"implies(chunked or old(not has_lower_key(headers, 'content-length') and has_lower_key(headers, 'transfer-encoding')), ghost.n_sent == {BASE} + 1 and ghost.last_sent == {TERM})",
          "chunked-by-request-or-by-caller-header:terminated")
c.ensures(f"implies(not chunked and old(has_lower_key(headers, 'content-length')), ghost.n_sent == {BASE})", "caller-Content-Length:no-terminating-chunk")
INV_NF = "('content-length' not in header_keys and 'transfer-encoding' not in header_keys)"
c.invariant(1, f"implies({INV_NF}, ghost.te_put == old(ghost.te_put) + (1 if chunked else 0) and ghost.cl_put == old(ghost.cl_put) + (1 if (not chunked and content_length is not None) else 0))",
            "caller-headers-add-no-framing-line-when-none-was-supplied", iter="dict-items", key_type="str", modifies_ghost=["te_put", "cl_put", "cl_value", "hdr_lines", "ua_put"])
c.invariant(1, f"implies({INV_NF} and not chunked and content_length is not None, ghost.cl_value == str(content_length))", "content-length-value-kept")
c.invariant(1, "is_int(ghost.te_put) and is_int(ghost.cl_put) and is_int(ghost.hdr_lines) and is_int(ghost.ua_put)", "counters")
c.invariant(1, "implies('user-agent' not in header_keys, ghost.ua_put == old(ghost.ua_put) + 1)", "automatic-user-agent-line-when-the-caller-has-none")
# C10: the automatic lines appear only when the caller neither supplied nor suppressed them (a supplied SKIP_HEADER value counts as supplied)
c.ensures("ghost.skip_host == old(has_lower_key(headers, 'host')) and ghost.skip_ae == old(has_lower_key(headers, 'accept-encoding'))",
          "automatic-Host-and-Accept-Encoding-suppressed-exactly-when-the-caller-supplied-them")
c.ensures("implies(old(not has_lower_key(headers, 'user-agent')), ghost.ua_put == old(ghost.ua_put) + 1)", "automatic-User-Agent-when-the-caller-has-none")
c.site_assert("HTTPConnection.putheader#lit:User-Agent", "not has_lower_key(caller_headers, 'user-agent')", "automatic-User-Agent-only-when-the-caller-has-none")
c.tag("C10", "automatic-Host-and-Accept-Encoding-suppressed-exactly-when-the-caller-supplied-them", "automatic-User-Agent-when-the-caller-has-none", "automatic-User-Agent-only-when-the-caller-has-none",
      "automatic-user-agent-line-when-the-caller-has-none")
c.props.add("C10")
c.invariant(2, "is_int(ghost.n_sent)", "counter", iter="opaque", modifies_ghost=["n_sent", "last_sent"], capture={"loop_n_sent": "ghost.n_sent"},
            iter_post=[("empty-chunks-are-skipped", "implies(not _item, ghost.n_sent == old(ghost.n_sent))"),
                       ("each-non-empty-chunk-is-sent-exactly-once-framed-iff-chunked",
                        "implies(bool(_item), ghost.n_sent == old(ghost.n_sent) + 1 and ghost.last_sent == "
                        "((b'%x\\r\\n%b\\r\\n' % (len(wire_form(_item)), wire_form(_item))) if chunked else wire_form(_item)))")])
c.raises("BaseException")

# ------------------------------------------------------------------------------------------------ putheader / putrequest
c = contract(f"{CONN}.putheader", prop="C11")
c.props.add("C10")
c.types(header="str")
for g in ("te_put", "cl_put", "cl_value", "hdr_lines", "ua_put"):
    c.ghost(g)
SKIPPED = "(isinstance(values[0], str) and values[0] == K('urllib3.util.request.SKIP_HEADER'))"
c.requires("is_int(ghost.te_put) and is_int(ghost.cl_put) and is_int(ghost.hdr_lines) and is_int(ghost.ua_put)")
c.modifies("ghost.te_put", "ghost.cl_put", "ghost.cl_value", "ghost.hdr_lines", "ghost.ua_put")
c.ensures(f"is_int(ghost.ua_put) and ghost.ua_put == old(ghost.ua_put) + (1 if (header.lower() == 'user-agent' and not {SKIPPED}) else 0)", "counts-user-agent-lines")
c.ensures(f"is_int(ghost.hdr_lines) and ghost.hdr_lines == old(ghost.hdr_lines) + (0 if {SKIPPED} else 1)", "a-suppressed-header-emits-no-line-any-other-exactly-one")
c.ensures(f"implies({SKIPPED}, header.lower() in ('accept-encoding', 'host', 'user-agent'))", "only-the-three-automatic-headers-can-be-suppressed")
c.raises("ValueError", when=f"{SKIPPED} and header.lower() not in ('accept-encoding', 'host', 'user-agent')", iff=True, ensures="ghost.hdr_lines is old(ghost.hdr_lines)",
         name="SKIP_HEADER-on-any-other-header-is-rejected")
c.ensures("is_int(ghost.te_put) and ghost.te_put == old(ghost.te_put) + (1 if header.lower() == 'transfer-encoding' else 0)", "counts-transfer-encoding-lines")
c.ensures("is_int(ghost.cl_put) and ghost.cl_put == old(ghost.cl_put) + (1 if header.lower() == 'content-length' else 0)", "counts-content-length-lines")
c.ensures("(len(values) >= 1 and ghost.cl_value is values[0]) if header.lower() == 'content-length' else ghost.cl_value is old(ghost.cl_value)", "records-the-content-length-value")
c.raises("BaseException", ensures="ghost.te_put is old(ghost.te_put) and ghost.cl_put is old(ghost.cl_put) and ghost.cl_value is old(ghost.cl_value) and ghost.hdr_lines is old(ghost.hdr_lines) and ghost.ua_put is old(ghost.ua_put)")
c.vararg_len = 1          # verified for one value per header line (every call site in urllib3 passes exactly one)

TOKEN = "[-!#$%&'*+.^_`|~0-9a-zA-Z]*"
c = contract(f"{CONN}.putrequest", prop="C10")
c.props.add("C11")
c.types(method="str", url="str", skip_host="bool", skip_accept_encoding="bool")
c.ghost("reqlines").ghost("req_method").ghost("skip_host").ghost("skip_ae")
c.requires("is_int(ghost.reqlines)")
c.modifies("ghost.reqlines", "ghost.req_method", "ghost.skip_host", "ghost.skip_ae")
c.ensures("ghost.skip_host is skip_host and ghost.skip_ae is skip_accept_encoding", "suppression-flags-passed-on-unchanged")
c.ensures(f'matches("{TOKEN}", method)', "only-token-methods-reach-http.client")
c.ensures("is_int(ghost.reqlines) and ghost.reqlines == old(ghost.reqlines) + 1 and ghost.req_method is method", "the-request-line-carries-the-method-unchanged")
c.raises("ValueError", when=f'not matches("{TOKEN}", method)', iff=True, ensures="ghost.reqlines is old(ghost.reqlines)", name="non-token-method-rejected-before-anything-is-buffered")
c.raises("BaseException", ensures="ghost.reqlines is old(ghost.reqlines)")
