"""C11: the body-position functions (urllib3.util.request.set_file_position / rewind_body) and the body classifier
body_to_chunks, verified over a DUCK-TYPED body: `getattr(body, "tell"/"seek", None)` is an arbitrary value (absent = None),
calling it is used at the assumed contracts `duck.tell` / `duck.seek` (returns anything, raises anything, seek records its
argument in ghost state).  The statement: a recorded position is never replaced, and a re-send either seeks to exactly
the recorded position or fails with UnrewindableBodyError (ValueError for a position that was never a position) -
never a silent skip of the rewind."""
from pyvc.dsl import contract

R = "urllib3.util.request"

c = contract("duck.tell").params().assumed("a caller-supplied object's tell(): returns an arbitrary value (ghost tell_result) or raises anything; assumed not to touch urllib3's objects")
c.ghost("tell_result")
c.modifies()
c.ensures("result is ghost.tell_result")
c.raises("OSError")
c.raises("BaseException", ensures="not isinstance(exc, OSError)")

c = contract("duck.seek").params("offset").assumed("a caller-supplied object's seek(offset): records the offset (ghost seeks / seek_to) or raises anything")
c.ghost("seeks").ghost("seek_to")
c.requires("is_int(ghost.seeks)")
c.modifies("ghost.seeks", "ghost.seek_to")
c.ensures("is_int(ghost.seeks) and ghost.seeks == old(ghost.seeks) + 1 and ghost.seek_to is offset")
c.raises("OSError", ensures="ghost.seeks is old(ghost.seeks)")
c.raises("BaseException", ensures="not isinstance(exc, OSError) and ghost.seeks is old(ghost.seeks)")

# ------------------------------------------------------------------------------------------------ rewind_body
c = contract(f"{R}.rewind_body", prop="C11")
c.types(body="any", body_pos="any")
c.ghost("seeks").ghost("seek_to")
c.opaque_calls = {"body_seek": "contract:duck.seek"}
c.duck_attrs = {"seek"}
c.requires("is_int(ghost.seeks)")
c.modifies("ghost.seeks", "ghost.seek_to")
c.ensures("ghost.seeks == old(ghost.seeks) + 1 and ghost.seek_to is body_pos and isinstance(body_pos, int) and getattr(body, 'seek', None) is not None",
          "returns-only-after-seeking-to-exactly-the-recorded-position")
c.raises("UnrewindableBodyError", ensures="ghost.seeks is old(ghost.seeks)", name="unrewindable:nothing-was-sought")
c.raises("ValueError", when="not (getattr(body, 'seek', None) is not None and isinstance(body_pos, int)) and body_pos is not K('urllib3.util.request._FAILEDTELL')", iff=False,
         ensures="ghost.seeks is old(ghost.seeks) and not isinstance(exc, OSError)", name="not-a-position")
c.raises("BaseException", when="getattr(body, 'seek', None) is not None and isinstance(body_pos, int)", iff=False,
         ensures="not isinstance(exc, OSError) and ghost.seeks is old(ghost.seeks)", name="seek-itself-failed-otherwise")
c.exc_ensures("implies(body_pos is K('urllib3.util.request._FAILEDTELL'), isinstance(exc, UnrewindableBodyError))", "failed-tell-marker-always-unrewindable")

# ------------------------------------------------------------------------------------------------ set_file_position
c = contract(f"{R}.set_file_position", prop="C11", variant="body")
c.types(body="any", pos="any")
c.ghost("seeks").ghost("seek_to").ghost("tell_result")
c.opaque_calls = {".tell": "contract:duck.tell"}
c.duck_attrs = {"tell"}
c.requires("is_int(ghost.seeks)")
c.modifies("ghost.seeks", "ghost.seek_to")
c.ensures("implies(pos is not None, result is pos)", "a-recorded-position-is-never-replaced")
c.ensures("implies(pos is not None, ghost.seeks == old(ghost.seeks) + 1 and ghost.seek_to is pos)", "a-recorded-position-is-sought-before-the-resend")
c.ensures("implies(pos is None, ghost.seeks is old(ghost.seeks))", "first-attempt-does-not-seek")
c.ensures("implies(pos is None and getattr(body, 'tell', None) is None, result is None)", "no-tell-no-position")
c.ensures("implies(pos is None and getattr(body, 'tell', None) is not None, result is ghost.tell_result or result is K('urllib3.util.request._FAILEDTELL'))",
          "position-is-what-tell-said-or-the-failed-tell-marker")
c.raises("UnrewindableBodyError", when="pos is not None", iff=False, ensures="ghost.seeks is old(ghost.seeks)")
c.raises("ValueError", when="pos is not None", iff=False, ensures="ghost.seeks is old(ghost.seeks)")
c.raises("BaseException", ensures="not isinstance(exc, OSError)", name="callback-failed-otherwise")
c.exc_ensures("ghost.seeks is old(ghost.seeks)", "a-failed-call-did-not-seek")

# ------------------------------------------------------------------------------------------------ body_to_chunks
c = contract(f"{R}.body_to_chunks", prop="C11")
c.types(body="any", method="str", blocksize="int")
c.duck_attrs = {"read"}
c.modifies()
c.ensures("implies(body is None, result.chunks is None)", "no-body-no-chunks")
c.ensures("implies(body is None, (result.content_length is None) if method.upper() in ('GET', 'HEAD', 'DELETE', 'TRACE', 'OPTIONS', 'CONNECT') else (is_int(result.content_length) and result.content_length == 0))",
          "body-less:unframed-for-GET-like-methods-else-Content-Length-0")
c.ensures("implies(isinstance(body, bytes), is_int(result.content_length) and result.content_length == len(body) and len(result.chunks) == 1 and result.chunks[0] is body)", "bytes:Content-Length-is-the-length-and-the-payload-is-the-body")
c.ensures("implies(isinstance(body, str), is_int(result.content_length) and result.content_length == len(body.encode('utf-8')) and len(result.chunks) == 1 and result.chunks[0] == body.encode('utf-8'))",
          "str:framed-as-its-UTF-8-encoding")
c.ensures("implies(body is not None, result.chunks is not None)", "a-body-is-never-dropped")
c.ensures("implies(body is not None and not isinstance(body, (str, bytes)) and hasattr(body, 'read'), result.content_length is None)", "file-like:chunked")
c.raises("TypeError", when="body is not None and not isinstance(body, (str, bytes)) and not hasattr(body, 'read')", iff=False)
c.raises("UnicodeEncodeError", when="isinstance(body, str)", iff=False)
c.ensures("implies(body is not None and not isinstance(body, (str, bytes)) and not hasattr(body, 'read'), "
          "result.content_length is None or (is_int(result.content_length) and result.content_length >= 0 and len(result.chunks) == 1 and result.chunks[0] is body))",
          "buffer-or-iterable:either-chunked-or-the-buffer-itself-with-its-byte-count")
