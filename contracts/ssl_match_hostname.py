"""C08: certificate name matching - the dispatch logic of match_hostname against abstract DNS / IP matchers.
The SAN list has a concrete length (0..3) and symbolic content: the for-loop unrolls, so each variant is a complete
case analysis for that length (the property's own quantifier bounds SAN lists at 3 entries)."""
from pyvc.dsl import contract, field

M = "urllib3.util.ssl_match_hostname"

c = contract("ipaddress.ip_address").params("address").assumed("ipaddress.ip_address: an address object for a valid literal, ValueError otherwise (a function of the text)")
c.modifies()
c.ensures("bool(uf('is_ip_literal', address)) and result is uf('ip_value', address) and result is not None")
c.raises("ValueError", when="not bool(uf('is_ip_literal', address))", iff=True)

c = contract(f"{M}._dnsname_match")
c.assumed("RFC 6125 DNS-ID matcher (regex built at run time; checked by the bounded contract): truthy iff dns_ok(dn, hostname); CertificateError for too many wildcards")
c.types(dn="any", hostname="str", max_wildcards="any")
c.modifies()
c.ensures("bool(result) == bool(uf('dns_ok', dn, hostname))")
c.raises("CertificateError", when="bool(uf('dns_too_many_wildcards', dn))", iff=True)

c = contract(f"{M}._ipaddress_match")
c.assumed("IP-ID matcher: equality of packed address values (checked by the bounded contract); ValueError for a malformed SAN entry")
c.types(ipname="any", host_ip="any")
c.modifies()
c.ensures("isinstance(result, bool) and result == bool(uf('ip_ok', ipname, host_ip))")
c.raises("ValueError", when="bool(uf('ip_san_malformed', ipname))", iff=True)

for n in (0, 1, 2, 3):
    for with_subject in (False, True):
        v = f"san{n}" + ("+subject" if with_subject else "")
        c = contract(f"{M}.match_hostname", prop="C08", variant=v)
        c.props.add("C07")
        c.types(hostname="str", hostname_checks_common_name="bool")
        keys = ["subjectAltName"] + (["subject"] if with_subject else [])
        c.ldict("cert", keys)
        c.tuple_params = {"cert.subjectAltName": [("k%d" % i, "v%d" % i) for i in range(n)]}
        if with_subject:
            c.tuple_params["cert.subject"] = [[("sk0", "sv0")]]
        for i in range(n):
            c.requires(f"isinstance(cert['subjectAltName'][{i}][0], str) and isinstance(cert['subjectAltName'][{i}][1], str)")
        if with_subject:
            c.requires("isinstance(cert['subject'][0][0][0], str) and isinstance(cert['subject'][0][0][1], str)")
        c.modifies()
        c.ensures("result is None and san_accepts(cert, hostname, hostname_checks_common_name)", "accepts-only-on-a-permitted-match")
        c.raises("CertificateError", when="not san_accepts(cert, hostname, hostname_checks_common_name) or san_has_overwild(cert, hostname, hostname_checks_common_name)", name="rejects-without-a-permitted-match")
        c.raises("ValueError", when="san_has_malformed_ip(cert, hostname)", name="malformed-IP-SAN")
