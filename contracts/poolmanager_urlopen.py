"""PoolManager.urlopen: cross-host redirect logic (C05, C06), routing form (C09, C15)."""
from pyvc.dsl import contract, field

PM = "urllib3.poolmanager.PoolManager"
P = "urllib3.connectionpool.HTTPConnectionPool"
field(PM, "proxy", "urllib3.util.url.Url")
field(PM, "headers", "builtins.dict")

c = contract("urllib.parse.urljoin").params("base", "url").assumed("RFC 3986 section 5.2 reference resolution: a function of (base, reference)")
c.modifies()
c.ensures("result is uf('urljoin', base, url) and isinstance(result, str)")

c = contract("warnings.warn").params("message", "category", "stacklevel").assumed("emits a warning; no effect on program state")
c.modifies()
c.ensures("result is None")

c = contract("urllib3._collections.HTTPHeaderDict.copy")
c.assumed("fresh independent copy (C16)")
c.modifies()
c.ensures("fresh(result) and isinstance(result, HTTPHeaderDict)")
c.result_hint = "urllib3._collections.HTTPHeaderDict"

c = contract(f"{PM}.connection_from_host")
c.assumed("returns the (cached or new) pool for (scheme, host, port) - C17/C18; the pool satisfies the HTTPConnectionPool class invariant")
c.types(host="any", port="any", scheme="any", pool_kwargs="any")
c.modifies()
c.ensures("isinstance(result, HTTPConnectionPool) and valid_pool(result)")
c.raises("Exception", ensures="not isinstance(exc, (OSError, HTTPException)) or isinstance(exc, HTTPError)")
c.result_hint = P

GH = ("out", "sends", "waits", "req_timeout", "clock", "sleeps", "last_sleep", "getconn_fault", "checkouts")
for variant, keys in (("kw:headers,retries,body", ["headers", "retries", "body"]), ("kw:empty", [])):
    c = contract(f"{PM}.urlopen", prop="C05", variant=variant)
    c.props.update({"C06", "C09", "C15"})
    c.types(method="str", url="str", redirect="bool")
    c.kwarg_keys = keys
    for g in GH:
        c.ghost(g)
    c.requires("ghosts_typed(ghost.out, ghost.sends, ghost.waits, ghost.sleeps, ghost.clock, ghost.checkouts)")
    c.requires("isinstance(self.headers, dict)")
    c.requires("self.proxy is None or isinstance(self.proxy, Url)")
    c.requires("implies(self.proxy is not None, self.proxy.scheme is None or isinstance(self.proxy.scheme, str))")
    c.requires("self.proxy_config is None or isinstance(self.proxy_config, ProxyConfig)")
    c.requires("isinstance(Retry.DEFAULT, Retry) and valid_retry(Retry.DEFAULT)")
    if "headers" in keys:
        c.requires("isinstance(kw['headers'], (dict, HTTPHeaderDict))")
        c.requires("kw['retries'] is None or kw['retries'] is False or kw['retries'] is True or isinstance(kw['retries'], (int, Retry))")
        c.requires("implies(isinstance(kw['retries'], Retry), valid_retry(kw['retries']))")
    c.modifies(*[f"*.{f}" for f in ("sock", "timeout", "is_verified", "proxy_is_verified", "_has_connected_to_proxy", "_response_options",
                                    "_tunnel_host", "_tunnel_port", "_tunnel_scheme", "num_requests", "num_connections", "__traceback__",
                                    "_connection", "_fp", "_body", "_container")],
               *[f"ghost.{g}" for g in ("out", "sends", "waits", "req_timeout", "clock", "sleeps", "last_sleep", "checkouts")])
    c.raises_any = True
    c.ensures("isinstance(result, BaseHTTPResponse)", "returns-response")
    c.ensures("ghosts_typed(ghost.out, ghost.sends, ghost.waits, ghost.sleeps, ghost.clock, ghost.checkouts)", "ghost-typed")
    c.exc_ensures("ghosts_typed(ghost.out, ghost.sends, ghost.waits, ghost.sleeps, ghost.clock, ghost.checkouts)", "ghost-typed")
    c.site_old = {"in_url": "url", "in_method": "method", "in_redirect": "redirect"}
    if "body" in keys:
        c.site_old["in_body"] = "kw['body']"
    # ---- C09 / C15: what the pool is asked to send
    c.site_assert("HTTPConnectionPool.urlopen",
                  "assert_same_host is False and redirect is False", "pool-never-follows-redirects-itself")
    c.site_assert("HTTPConnectionPool.urlopen",
                  "implies(absolute_form_required(caller_self, caller_u), url is in_url)"
                  " and implies(not absolute_form_required(caller_self, caller_u), url == spec_request_uri(caller_u))",
                  "absolute-form-iff-forwarding-else-origin-form(path?query,no-fragment,no-userinfo)")
    c.site_assert("HTTPConnectionPool.urlopen", "method is in_method", "method-as-requested")
    # ---- C05: recursion = one redirect hop, only when redirect was requested, with the incremented policy
    c.site_assert("PoolManager.urlopen", "bool(in_redirect) and redirect is in_redirect", "hop-only-if-redirect-requested")
    c.site_assert("PoolManager.urlopen",
                  "isinstance(kw['retries'], Retry) and fresh(kw['retries']) and kw['retries'] is caller_retries",
                  "hop-carries-the-decremented-policy")
    c.site_assert("PoolManager.urlopen",
                  "url is uf('urljoin', in_url, uf('redirect_location', caller_response))", "hop-target=urljoin(current,Location)")
    c.site_assert("PoolManager.urlopen",
                  "implies(caller_response.status == 303, method == 'GET' and kw['body'] is None)"
                  " and implies(caller_response.status != 303, method is in_method" + (" and kw['body'] is in_body" if "body" in keys else "") + ")",
                  "303-becomes-bodyless-GET,others-keep-method-and-body")
    # ---- C05 effective policy: the policy consulted for a cross-host hop is the request's, else the pool's default
    c.site_assert("Retry.from_int", "default is caller_conn.retries", "effective-policy=request-level-else-pool-default")
    # ---- C06: the strip decision is taken against the absolute target; stripping works on a copy
    c.site_assert("HTTPConnectionPool.is_same_host", "url is uf('urljoin', in_url, uf('redirect_location', caller_response))",
                  "origin-compared-against-the-absolute-redirect-target")
    c.site_assert("method:pop", "fresh(self)", "headers-stripped-from-a-fresh-copy-only")
    c.tag("C05", "hop-only-if-redirect-requested", "hop-carries-the-decremented-policy", "hop-target=urljoin(current,Location)",
          "303-becomes-bodyless-GET,others-keep-method-and-body", "effective-policy=request-level-else-pool-default", "returns-response",
          "pool-never-follows-redirects-itself")
    c.tag("C06", "origin-compared-against-the-absolute-redirect-target", "headers-stripped-from-a-fresh-copy-only",
          "effective-policy=request-level-else-pool-default")
    c.tag("C09", "absolute-form-iff-forwarding-else-origin-form(path?query,no-fragment,no-userinfo)", "pool-never-follows-redirects-itself")
    c.tag("C15", "absolute-form-iff-forwarding-else-origin-form(path?query,no-fragment,no-userinfo)", "method-as-requested")
    # the strip loop, per iteration (old() = start of the iteration; ghost.probe is an arbitrary header name):
    S = "retries.remove_headers_on_redirect"
    c.ghost("probe")
    c.invariant(1, "True", havoc_objects=["new_headers"], iter="dict-keys", item_type="str", iter_post=[
        ("a-visited-name-on-the-strip-list-is-absent-from-the-copy", f"implies(isinstance(new_headers, dict), implies(_item.lower() in {S}, _item not in new_headers))"),
        ("names-not-on-the-strip-list-are-kept-with-their-values",
         f"implies(isinstance(new_headers, dict) and (_item.lower() not in {S} or ghost.probe != _item), (ghost.probe in new_headers) == old(ghost.probe in new_headers)"
         " and implies(ghost.probe in new_headers, new_headers[ghost.probe] is old(new_headers[ghost.probe])))"),
        ("nothing-is-ever-added-to-the-copy", "implies(isinstance(new_headers, dict), implies(ghost.probe in new_headers, old(ghost.probe in new_headers)))"),
    ])
    c.tag("C06", "a-visited-name-on-the-strip-list-is-absent-from-the-copy", "names-not-on-the-strip-list-are-kept-with-their-values",
          "nothing-is-ever-added-to-the-copy")
